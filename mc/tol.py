"""Tolerance policy (DESIGN §2.5).  Every comparison returns (ok, worst) and never
raises on shape mismatches: a wrong shape is a mismatch."""
import numpy as np

TIGHT = 1e-9
ITER = 1e-6
INEQ = 1e-7


def _arr(x):
    return np.asarray(x)


def mismatch(a, b, rtol=TIGHT, scale=1.0, what='value'):
    """None if a ≈ b, else a text describing the mismatch.
    |a-b| <= rtol*scale*(1+max(|a|,|b|)) elementwise; shapes must agree; both finite."""
    a, b = _arr(a), _arr(b)
    if a.shape != b.shape:
        return f'{what}: shape {a.shape} != expected {b.shape}'
    if a.size == 0:
        return None
    if a.dtype.kind not in 'fciub' or b.dtype.kind not in 'fciub':
        return None if np.array_equal(a, b) else f'{what}: objects differ'
    fa, fb = np.isfinite(a), np.isfinite(b)
    if not fb.all():
        # reference itself is not finite: compare non-finite patterns exactly
        if not np.array_equal(fa, fb):
            return f'{what}: non-finite pattern differs from reference'
        a, b = np.where(fb, a, 0), np.where(fb, b, 0)
    elif not fa.all():
        return f'{what}: {int((~fa).sum())} non-finite entries (reference finite)'
    err = np.abs(a - b)
    lim = rtol * scale * (1 + np.maximum(np.abs(a), np.abs(b)))
    bad = err > lim
    if bad.any():
        i = np.unravel_index(np.argmax(err - lim), err.shape) if err.ndim else ()
        return (f'{what}: max |a-b| = {float(err.max()):.3e} at {tuple(int(j) for j in i)} '
                f'(got {a[i]!r}, expected {b[i]!r}, tol {float(lim[i]) if err.ndim else float(lim):.1e})')
    return None


def exact(a, b, what='value'):
    a, b = _arr(a), _arr(b)
    if a.shape != b.shape:
        return f'{what}: shape {a.shape} != expected {b.shape}'
    if not np.array_equal(a, b):
        n = int(np.sum(a != b))
        return f'{what}: {n} entries differ exactly'
    return None


def worse(value, bound, rtol=INEQ):
    """True if value < bound by more than the inequality tolerance."""
    return value < bound - rtol * (1 + abs(bound))


def all_finite(x):
    x = _arr(x)
    return bool(np.isfinite(x).all())


def digest(x, sig=8):
    """Rounded text digest of numeric content (only to count distinct outcomes)."""
    x = _arr(x)
    if x.dtype.kind in 'iub':
        return x.tobytes().hex()[:64] + str(x.shape)
    with np.errstate(all='ignore'):
        if x.dtype.kind == 'c':
            x = np.stack([x.real, x.imag])
        x = np.where(np.isfinite(x), x, -12345.0)
        m = np.max(np.abs(x)) if x.size else 1.0
        q = np.round(x / (m if m > 0 else 1.0), sig) + 0.0
    import hashlib
    return hashlib.sha1(q.tobytes() + str(x.shape).encode()).hexdigest()[:16]
