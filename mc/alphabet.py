"""Atoms: the finite data alphabet (DESIGN §2.3).  Everything is a deterministic
function of (tag, VERIF_SEED); generic atoms are vetted when built."""
import hashlib
import itertools

import numpy as np

from mc.core import HarnessError

GI_COMPLEX = (0, 1, -1, 1j, 1 + 1j)
GI_REAL = (0, 1, -1, 2)


def rng(seed, *tag):
    h = hashlib.sha1(repr((int(seed),) + tuple(tag)).encode()).digest()
    return np.random.default_rng(int.from_bytes(h[:8], 'little'))


def gi_vectors(D, complex_=True):
    vals = GI_COMPLEX if complex_ else GI_REAL
    dt = np.complex128 if complex_ else np.float64
    return [np.array(v, dtype=dt) for v in itertools.product(vals, repeat=D)]


def cnormal(r, shape):
    return (r.standard_normal(shape) + 1j * r.standard_normal(shape)) / np.sqrt(2)


def unitary(seed, D, *tag, complex_=True):
    r = rng(seed, 'unitary', D, *tag)
    a = cnormal(r, (D, D)) if complex_ else r.standard_normal((D, D))
    q, rr = np.linalg.qr(a)
    d = np.diag(rr)
    return q * (d / np.abs(d))


def hpd(seed, D, cond, *tag, complex_=True):
    """Hermitian positive definite matrix with eigenvalues on a geometric grid
    in [1/cond, 1] (known condition number), generic eigenvectors."""
    u = unitary(seed, D, 'hpd', cond, *tag, complex_=complex_)
    lam = np.geomspace(1.0, 1.0 / cond, D) if D > 1 else np.ones(1)
    m = (u * lam) @ u.conj().T
    return (m + m.conj().T) / 2


def unit_vectors(seed, n, D, *tag, complex_=True, max_cos=None, min_cos=None):
    """n unit vectors in general position; pairwise |cos| inside [min_cos, max_cos]."""
    for attempt in range(200):
        r = rng(seed, 'unit', n, D, attempt, *tag)
        v = cnormal(r, (n, D)) if complex_ else r.standard_normal((n, D))
        v /= np.linalg.norm(v, axis=-1, keepdims=True)
        g = np.abs(v.conj() @ v.T) - np.eye(n)
        if n == 1:
            return v
        off = g[~np.eye(n, dtype=bool)]
        if max_cos is not None and off.max() > max_cos:
            continue
        if min_cos is not None and off.min() < min_cos:
            continue
        return v
    raise HarnessError(f'cannot vet unit vectors {n}x{D} {tag}')


def generic_data(seed, shape, *tag, complex_=True, min_norm=0.2):
    """Generic-position observations (..., N, D) without small frames (offending frames are
    re-drawn, deterministically)."""
    r = rng(seed, 'data', shape, 0, *tag)
    y = cnormal(r, shape) if complex_ else r.standard_normal(shape)
    for attempt in range(1, 200):
        small = np.linalg.norm(y, axis=-1) < min_norm
        if not small.any():
            return y
        r2 = rng(seed, 'data', shape, attempt, *tag)
        z = cnormal(r2, shape) if complex_ else r2.standard_normal(shape)
        y[small] = z[small]
    raise HarnessError(f'cannot vet generic data {shape} {tag}')


def clustered_data(seed, lead, K, per, D, *tag, complex_=True, noise=0.15,
                   protos=None):
    """Clustered observations lead+(K*per, D): K prototypes per slice plus noise."""
    lead = tuple(lead)
    out = np.zeros(lead + (K * per, D), dtype=np.complex128 if complex_ else np.float64)
    labels = np.repeat(np.arange(K), per)
    for idx in np.ndindex(*lead):
        p = unit_vectors(seed, K, D, 'cl', idx, *tag, complex_=complex_, max_cos=0.8) \
            if protos is None else protos
        r = rng(seed, 'clnoise', idx, K, per, D, *tag)
        n = cnormal(r, (K * per, D)) if complex_ else r.standard_normal((K * per, D))
        g = cnormal(r, (K * per, 1)) if complex_ else (1 + 0.3 * r.standard_normal((K * per, 1)))
        out[idx] = p[labels] * g + noise * n
    return out, labels


def soft_affiliation(seed, lead, K, N, *tag, floor=0.05):
    """Strictly positive initial affiliation lead+(K, N), generic."""
    r = rng(seed, 'aff', tuple(lead), K, N, *tag)
    a = r.uniform(floor, 1.0, size=tuple(lead) + (K, N))
    return a / a.sum(-2, keepdims=True)


def partition_affiliation(labels, K, blur=0.0, lead=()):
    """True partition blurred by `blur` (mass moved uniformly to other classes)."""
    N = len(labels)
    a = np.full((K, N), blur / max(K - 1, 1) if K > 1 else 0.0)
    a[labels, np.arange(N)] = 1.0 - blur if K > 1 else 1.0
    return np.broadcast_to(a, tuple(lead) + (K, N)).copy()


def graded_saliency(lead, N, lo=0.25, hi=2.0):
    s = np.linspace(lo, hi, N)
    out = np.empty(tuple(lead) + (N,))
    for j, idx in enumerate(np.ndindex(*lead)):
        out[idx] = np.roll(s, j) * (1.0 + 0.7 * j)   # slices carry different total saliency
    return out


def all_perms(K):
    return list(itertools.permutations(range(K)))


LAYOUTS = ('C', 'F', 'perm', 'strided', 'neg')


def relayout(x, kind):
    """an array equal to x (same shape, dtype, values) with another memory layout:
    C / F contiguous, axes permuted in memory, element stride 2 on the last axis, negative stride."""
    x = np.asarray(x)
    if kind == 'C' or x.ndim == 0:
        out = np.ascontiguousarray(x)
    elif kind == 'F':
        out = np.asfortranarray(x)
    elif kind == 'perm':
        out = np.moveaxis(np.ascontiguousarray(np.moveaxis(x, 0, -1)), -1, 0)
    elif kind == 'strided':
        buf = np.zeros(x.shape[:-1] + (2 * x.shape[-1],), dtype=x.dtype)
        buf[..., ::2] = x
        out = buf[..., ::2]
    elif kind == 'neg':
        out = np.ascontiguousarray(x[..., ::-1])[..., ::-1]
    else:
        raise ValueError(kind)
    assert out.shape == x.shape and out.dtype == x.dtype and np.array_equal(out, x, equal_nan=True)
    return out
