"""Shared definitions for drivers and the runner."""
import numpy as np


import os as _os

REPO = _os.environ.get('VERIF_REPO', '/repo').rstrip('/')   # /repo unless a scratch worktree is tried


class HarnessError(Exception):
    """A fault of the verification machinery (not of pb_bss)."""


# --------------------------------------------------------------------------
# results of one case


def ok(outcome=None, **kw):
    """Case evaluated against its oracle away from any discontinuity."""
    return dict(status='ok', outcome=outcome, **kw)


def trivial(reason, outcome=None, **kw):
    """Case only checked for domain/finite-ness (oracle at a discontinuity)."""
    return dict(status='trivial', reason=reason, outcome=outcome, **kw)


def raised_ok(exc, **kw):
    """Implementation raised an explicit exception where the property allows."""
    return dict(status='raised_ok', outcome='raised:' + type(exc).__name__,
                reason=_short(exc), **kw)


def viol(msg, observed=None, expected=None, **kw):
    return dict(status='violation', msg=str(msg), observed=_jsonable(observed),
                expected=_jsonable(expected), **kw)


def _short(exc, n=300):
    s = f'{type(exc).__name__}: {exc}'
    return s if len(s) <= n else s[:n] + '...'


def _jsonable(x, depth=0):
    if x is None or isinstance(x, (bool, int, str)):
        return x
    if isinstance(x, float):
        return x if np.isfinite(x) else repr(x)
    if isinstance(x, complex):
        return repr(x)
    if isinstance(x, np.generic):
        return _jsonable(x.item())
    if isinstance(x, np.ndarray):
        if x.size > 64:
            return dict(shape=list(x.shape), dtype=str(x.dtype),
                        head=_jsonable(x.ravel()[:16].tolist()))
        return _jsonable(x.tolist())
    if isinstance(x, dict):
        return {str(k): _jsonable(v, depth + 1) for k, v in x.items()}
    if isinstance(x, (list, tuple)):
        return [_jsonable(v, depth + 1) for v in x]
    return repr(x)[:300]


class Sub:
    """One sub-check: a finite, completely enumerated case list + a case runner.

    fields:  names of the coordinates of a case key
    cases:   zero-argument callable returning an iterable of tuples (the complete
             enumeration, simplest first)
    run:     callable(dict key) -> result dict (ok / trivial / raised_ok / viol)
    bound:   JSON description of alphabet and size bound that is completed
    exhaustive: False if the enumeration is a stated subset (cap) of the space
    kind:    'cases' (plain exploration) or 'graph' (states/transitions reported)
    """

    def __init__(self, name, fields, cases, run, bound=None, exhaustive=True,
                 min_nontrivial=1, min_outcomes=2, require_flags=(),
                 note=''):
        self.name = name
        self.fields = tuple(fields)
        self.cases = cases
        self.run = run
        self.bound = bound or {}
        self.exhaustive = exhaustive
        self.min_nontrivial = min_nontrivial
        self.min_outcomes = min_outcomes
        self.require_flags = tuple(require_flags)
        self.note = note
        self._cases = None

    def key(self, tup):
        return dict(zip(self.fields, tup))


