"""Deterministic builders of mixture-model scenarios from a configuration point
(used by C01, C04, C05, C09, ...).  Everything is a function of (point, seed)."""
import numpy as np

from mc import alphabet as A
from mc.refmodels import mixtures as M

REGULAR_KINDS_ = ('generic', 'near_unit', 'emb_offset', 'overlap')      # data kinds on which no exception is acceptable
DEGENERATE_KINDS = ('zero_frame', 'all_zero', 'duplicated', 'rank1', 'n_lt_d', 'n1',
                    'scale_hi', 'scale_lo', 'mixed_scale')


def _dtype(model, single):
    if model in M.COMPLEX_OBS:
        return np.complex64 if single else np.complex128
    return np.float32 if single else np.float64


def make_observation(seed, lead, N, D, kind, complex_, tag):
    lead = tuple(lead)
    if kind == 'n1':
        N = 1
    elif kind == 'n_lt_d':
        N = max(1, D - 1)
    y = A.generic_data(seed, lead + (N, D), 'obs', tag, complex_=complex_)
    if kind in ('generic', 'emb_offset'):
        pass
    elif kind == 'near_unit':
        # frames concentrated around two directions, every frame ALMOST of unit length (1 +- 8e-6, none exactly)
        r = A.rng(seed, 'near_unit', lead, N, tag)
        proto = y[..., :2, :]
        y = proto[..., np.arange(N) % 2, :] + 0.03 * y
        y = y / np.linalg.norm(y, axis=-1, keepdims=True) * (1 + 4e-6 * r.choice([-2.0, -1.0, 1.0, 2.0], size=lead + (N, 1)))
    elif kind == 'overlap':
        # three overlapping clusters (EM converges slowly, but does converge within ~100 iterations)
        proto = 1.5 * y[..., :3, :]
        y = proto[..., np.arange(N) % 3, :] + 0.7 * y
    elif kind == 'zero_frame':
        y[..., 0, :] = 0
    elif kind == 'all_zero':
        y[...] = 0
    elif kind == 'duplicated':
        y[...] = y[..., :1, :]
    elif kind == 'rank1':
        r = A.rng(seed, 'gain', lead, N, tag)
        g = r.uniform(0.5, 2.0, size=lead + (N, 1))
        g = g * (np.exp(2j * np.pi * r.uniform(size=lead + (N, 1))) if complex_
                 else r.choice([-1.0, 1.0], size=lead + (N, 1)))
        y = y[..., :1, :] * g
    elif kind == 'scale_hi':
        y = y * 1e150
    elif kind == 'scale_lo':
        y = y * 1e-150
    elif kind == 'mixed_scale':
        s = np.array([1e-150, 1e-100, 1e-3, 1, 1e3, 1e100, 1e150])
        y = y * s[np.arange(N) % len(s)][:, None]
    elif kind in ('n1', 'n_lt_d'):
        pass
    else:
        raise ValueError(kind)
    return y


def make_start(seed, lead, K, N, start, tag):
    lead = tuple(lead)
    if start == 'soft':
        return A.soft_affiliation(seed, lead, K, N, 'start', tag)
    if start == 'soft_singleton':
        return A.soft_affiliation(seed, (1,) * len(lead), K, N, 'start', tag)
    if start == 'onehot':
        a = np.zeros(lead + (K, N))
        for j, idx in enumerate(np.ndindex(*lead)):
            for n in range(N):
                a[idx + ((n + j) % K, n)] = 1.0
        return a
    if start == 'uniform':
        return np.full(lead + (K, N), 1.0 / K)
    if start == 'near_uniform':
        # uniform plus a jitter of 1e-5: the classes start nearly (not exactly) tied
        r = A.rng(seed, 'near_uniform', lead, K, N, tag)
        a = 1.0 / K + 1e-5 * r.uniform(-1, 1, size=lead + (K, N))
        return a / a.sum(-2, keepdims=True)
    if start == 'near_empty':
        # a soft start in which the last class holds a share of about 1e-4 of every observation
        a = A.soft_affiliation(seed, lead, K, N, 'start', tag)
        a[..., K - 1, :] *= 1e-4
        return a / a.sum(-2, keepdims=True)
    raise ValueError(start)


def make_saliency(lead, N, kind):
    lead = tuple(lead)
    if kind == 'none':
        return None
    if kind == 'ones':
        return np.ones(lead + (N,))
    if kind == 'graded':
        return A.graded_saliency(lead, N)
    if kind == 'tiny':
        return A.graded_saliency(lead, N) * 1e-13
    if kind == 'one_zero':
        s = A.graded_saliency(lead, N)
        s[..., N // 2] = 0.0
        return s
    raise ValueError(kind)


def make_mask(lead, K, N, kind):
    lead = tuple(lead)
    if kind == 'none':
        return None
    m = np.ones(lead + (K, N), dtype=bool)
    if kind == 'one_off':
        m[..., K - 1, : max(1, N // 2)] = False
    elif kind == 'all_off_frame':
        m[..., :, N - 1] = False
        m[..., 0, 0] = False
    else:
        raise ValueError(kind)
    return m


def make_aligner(kind, F):
    if kind in ('none', 'builtin'):
        return None
    import pb_bss.permutation_alignment as pa
    if kind == 'greedy':
        return pa.GreedyPermutationAlignment('cos')
    if kind == 'dhtv':
        w = max(1, F // 2)
        return pa.DHTVPermutationAlignment(
            stft_size=2 * (F - 1), segment_start=0, segment_width=w,
            segment_shift=max(1, w // 2), main_iterations=3, sub_iterations=2)
    raise ValueError(kind)


def resolve_wca(model, wca, aligner, lead):
    """aligners require frequency-independent weights: couple the default."""
    if aligner not in ('none', 'builtin') and wca == (-1,):
        return (-3,)
    return wca


def wca_valid(model, wca, ndim):
    axes = M.norm_axes(wca, ndim) if not isinstance(wca, int) else (wca,)
    return all(-ndim <= a <= -1 for a in axes)
