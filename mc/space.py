"""Configuration spaces explored like preemption-bounded schedules: every axis has a
default (first value); deviations(d) enumerates EVERY point that departs from the
defaults in at most d axes, in increasing number of deviations (simplest first)."""
import itertools


class Axis:
    def __init__(self, name, values):
        self.name = name
        self.values = list(values)
        self.default = self.values[0]


class Space:
    def __init__(self, axes, valid=None):
        self.axes = list(axes)
        self.names = [a.name for a in self.axes]
        self.valid = valid or (lambda p: True)

    def point(self, **over):
        p = {a.name: a.default for a in self.axes}
        p.update(over)
        return p

    def deviations(self, d, fixed=None, core=()):
        """All valid points with <= d non-default coordinates among the non-core axes,
        crossed with the full product of the `core` axes.  Yields dicts."""
        fixed = fixed or {}
        core_axes = [a for a in self.axes if a.name in core]
        free = [a for a in self.axes if a.name not in core and a.name not in fixed]
        seen = set()
        for core_vals in itertools.product(*[a.values for a in core_axes]):
            base = {a.name: a.default for a in self.axes}
            base.update(fixed)
            base.update({a.name: v for a, v in zip(core_axes, core_vals)})
            for k in range(0, d + 1):
                for combo in itertools.combinations(free, k):
                    for vals in itertools.product(*[a.values[1:] for a in combo]):
                        p = dict(base)
                        p.update({a.name: v for a, v in zip(combo, vals)})
                        key = tuple(repr(p[n]) for n in self.names)
                        if key in seen:
                            continue
                        seen.add(key)
                        if self.valid(p):
                            yield p

    def full(self, names, fixed=None):
        fixed = fixed or {}
        axes = [a for a in self.axes if a.name in names]
        for vals in itertools.product(*[a.values for a in axes]):
            p = {a.name: a.default for a in self.axes}
            p.update(fixed)
            p.update({a.name: v for a, v in zip(axes, vals)})
            if self.valid(p):
                yield p

    def tup(self, p):
        return tuple(p[n] for n in self.names)
