"""Engine: enumerates the complete case list of every sub-check of one property,
runs the real implementation from /repo's working tree on every case in a pool
of forked workers, merges the results deterministically (case order), writes
evidence/<ID>.json, violation artefacts, and decides the exit status.

exit 0: property held on everything explored (known findings are printed)
exit 1: at least one violation that KNOWN_FINDINGS.txt does not list
exit 2: fault of the harness itself (HARNESS-ERROR ...), never silent
"""
import argparse
import collections
import hashlib
import importlib
import json
import multiprocessing
import os
import subprocess
import sys
import time
import traceback

HERE = os.path.dirname(os.path.dirname(os.path.abspath(__file__)))
VENDOR = os.path.join(HERE, '_vendor')
if VENDOR not in sys.path:
    sys.path.append(VENDOR)  # at the end: never shadows /venv packages

import numpy as np  # noqa: E402

MAX_VIOLATION_FILES = int(os.environ.get('VERIF_MAXV', '25'))
MAX_SAMPLES = 6


from mc.core import (REPO, HarnessError, Sub, ok, trivial, raised_ok, viol,  # noqa: E402,F401
                     _short, _jsonable)


# --------------------------------------------------------------------------
# worker side

_SUBS = None


def _hash_outcome(o):
    if o is None:
        return None
    if not isinstance(o, str):
        o = json.dumps(_jsonable(o), sort_keys=True)
    return hashlib.sha1(o.encode()).hexdigest()[:16]


def run_case(sub, tup):
    key = sub.key(tup)
    try:
        res = sub.run(key)
        if res is None:
            res = ok()
    except HarnessError as e:
        res = dict(status='harness_error', msg=_short(e, 2000),
                   tb=traceback.format_exc()[-3000:])
    except Exception as e:  # noqa: an exception escaping a case = violation
        res = viol('uncaught exception while evaluating the case: ' + _short(e),
                   tb=traceback.format_exc()[-3000:], kind='exception')
    res['key'] = _jsonable(key)
    return res


def _work(job):
    si, start, stop = job
    sub = _SUBS[si]
    t0 = time.time()
    agg = dict(si=si, start=start, n=stop - start,
               status=collections.Counter(), evals=0, states=0, transitions=0,
               traces=0, outcomes=set(), flags=collections.Counter(),
               violations=[], harness=[], samples=[], reasons=collections.Counter())
    for i in range(start, stop):
        res = run_case(sub, sub._cases[i])
        st = res['status']
        agg['status'][st] += 1
        agg['evals'] += int(res.get('evals', 1))
        agg['states'] += int(res.get('states', 0))
        agg['transitions'] += int(res.get('transitions', 0))
        agg['traces'] += int(res.get('traces', 0))
        h = _hash_outcome(res.get('outcome'))
        if h is not None and len(agg['outcomes']) < 4000:
            agg['outcomes'].add(h)
        for f in res.get('flags', ()):
            agg['flags'][f] += 1
        if st in ('trivial', 'raised_ok'):
            agg['reasons'][str(res.get('reason'))[:80]] += 1
        if st == 'violation':
            if len(agg['violations']) < 8:
                agg['violations'].append(res)
            else:
                agg['violations'].append(dict(key=res['key'], msg=res['msg'][:200],
                                              status='violation', brief=True))
        elif st == 'harness_error':
            if len(agg['harness']) < 3:
                agg['harness'].append(res)
        elif st == 'ok' and len(agg['samples']) < 1:
            o = _jsonable(res.get('outcome'))
            if isinstance(o, str) and len(o) > 160:
                o = o[:160] + '...'
            agg['samples'].append(dict(key=res['key'], outcome=o,
                                       detail=_jsonable(res.get('detail'))))
    agg['wall'] = time.time() - t0
    return agg


# --------------------------------------------------------------------------
# known findings


def load_known(prop):
    path = os.path.join(HERE, 'KNOWN_FINDINGS.txt')
    known = []
    if not os.path.exists(path):
        return known
    for line in open(path):
        line = line.strip()
        if not line.startswith('known:'):
            continue
        rest = line[len('known:'):].strip()
        parts = {}
        # property=.. check=.. where={json} text
        toks = rest.split(' ', 2)
        for t in toks[:2]:
            k, _, v = t.partition('=')
            parts[k] = v
        tail = toks[2] if len(toks) > 2 else ''
        where = {}
        text = tail
        if tail.startswith('where='):
            dec = json.JSONDecoder()
            where, end = dec.raw_decode(tail[len('where='):])
            text = tail[len('where=') + end:].strip()
        if parts.get('property') == prop:
            known.append(dict(check=parts.get('check'), where=where, text=text))
    return known


def match_known(known, sub_name, key):
    for k in known:
        if k['check'] not in (sub_name, '*'):
            continue
        if all(_jsonable(key.get(f)) == v for f, v in k['where'].items()):
            return k
    return None


# --------------------------------------------------------------------------
# main


def repo_state():
    try:
        head = subprocess.run(['git', '-C', REPO, 'rev-parse', 'HEAD'],
                              capture_output=True, text=True).stdout.strip()
        dirty = subprocess.run(
            ['git', '-C', REPO, 'status', '--porcelain', '--untracked-files=no'],
            capture_output=True, text=True).stdout.strip() != ''
    except Exception:
        head, dirty = 'unknown', True
    return head, dirty


def validate_evidence(ev):
    for p in ('/root/.vp/EVIDENCE.schema.json',
              os.path.join(HERE, 'schemas', 'EVIDENCE.schema.json')):
        if os.path.exists(p):
            import jsonschema
            jsonschema.validate(ev, json.load(open(p)))
            return True
    return False


def load_driver(prop):
    return importlib.import_module('mc.props.' + prop.lower())


def replay(prop, path, tier, seed):
    art = json.load(open(path))
    seed = art.get('seed', seed)
    tier = art.get('tier', tier)
    drv = load_driver(prop)
    subs = drv.subchecks(tier, seed)
    sub = {s.name: s for s in subs}.get(art['sub'])
    if sub is None:
        print(f'HARNESS-ERROR: sub-check {art["sub"]} not found for replay')
        return 2
    tup = tuple(_detuple(art['key'][f]) for f in sub.fields)
    r1 = run_case(sub, tup)
    r2 = run_case(sub, tup)
    a, b = (json.dumps({k: v for k, v in r.items() if k != 'tb'}, sort_keys=True,
                       default=str) for r in (r1, r2))
    print(json.dumps(r1, indent=1, default=str)[:6000])
    if a != b:
        print('HARNESS-ERROR: two replays of the same case diverge')
        return 2
    if r1['status'] == 'violation':
        print(f'VIOLATION property={prop} replay={path}')
        return 1
    print(f'replay: case no longer fails (status={r1["status"]})')
    return 0


def _detuple(x):
    if isinstance(x, list):
        return tuple(_detuple(v) for v in x)
    return x


def main(argv=None):
    ap = argparse.ArgumentParser()
    ap.add_argument('prop')
    ap.add_argument('--tier', default=None)
    ap.add_argument('--replay', default=None)
    ap.add_argument('--list', action='store_true')
    ap.add_argument('--only', default=None, help='comma separated sub-check names')
    ap.add_argument('--workers', type=int, default=None)
    ap.add_argument('--no-evidence', action='store_true')
    args = ap.parse_args(argv)

    prop = args.prop.upper()
    tier = args.tier or os.environ.get('VERIF_TIER') or 'quick'
    if tier not in ('quick', 'thorough'):
        tier = 'quick'
    seed = int(os.environ.get('VERIF_SEED', '0') or 0)
    np.random.seed(seed % (2 ** 32))

    import pb_bss
    if not os.path.abspath(pb_bss.__file__).startswith(REPO + '/'):
        print(f'HARNESS-ERROR: pb_bss is not imported from {REPO}:', pb_bss.__file__)
        return 2
    if REPO != '/repo' and not args.no_evidence:
        print('HARNESS-ERROR: VERIF_REPO is only for trying changes in a scratch worktree; use --no-evidence')
        return 2

    if args.replay:
        return replay(prop, args.replay, tier, seed)

    t_start = time.time()
    drv = load_driver(prop)
    try:
        subs = drv.subchecks(tier, seed)
    except HarnessError as e:
        print('HARNESS-ERROR: building sub-checks:', e)
        return 2
    if args.only:
        want = set(args.only.split(','))
        subs = [s for s in subs if s.name in want]
    total = 0
    for s in subs:
        s._cases = [tuple(c) if not isinstance(c, tuple) else c for c in s.cases()]
        if len(set(map(repr, s._cases))) != len(s._cases):
            print(f'HARNESS-ERROR: sub-check {s.name} enumerates duplicate cases')
            return 2
        total += len(s._cases)
    if args.list:
        for s in subs:
            print(f'{s.name:40s} {len(s._cases):8d} cases  {s.note}')
        return 0

    global _SUBS
    _SUBS = subs
    workers = args.workers or int(os.environ.get('VERIF_WORKERS', '0') or 0) \
        or min(16, os.cpu_count() or 1)
    jobs = []
    for si, s in enumerate(subs):
        n = len(s._cases)
        chunk = max(1, min(2000, n // (workers * 6) + 1))
        for a in range(0, n, chunk):
            jobs.append((si, a, min(n, a + chunk)))
    if workers > 1 and len(jobs) > 1:
        ctx = multiprocessing.get_context('fork')
        with ctx.Pool(workers) as pool:
            parts = list(pool.imap_unordered(_work, jobs, chunksize=1))
    else:
        parts = [_work(j) for j in jobs]
    parts.sort(key=lambda p: (p['si'], p['start']))

    known = load_known(prop)
    known_hit = collections.Counter()
    per_sub = []
    all_viol = []
    harness_msgs = []
    tot = dict(evals=0, nontrivial=0, states=0, transitions=0, traces=0,
               trivial=0, raised=0, cases=0)
    samples = []
    exhaustive = True
    for si, s in enumerate(subs):
        ps = [p for p in parts if p['si'] == si]
        status = collections.Counter()
        outcomes = set()
        flags = collections.Counter()
        reasons = collections.Counter()
        sv = []
        agg = dict(evals=0, states=0, transitions=0, traces=0, wall=0.0)
        for p in ps:
            status.update(p['status'])
            outcomes |= p['outcomes']
            flags.update(p['flags'])
            reasons.update(p['reasons'])
            for k in ('evals', 'states', 'transitions', 'traces', 'wall'):
                agg[k] += p[k]
            sv.extend(p['violations'])
            harness_msgs.extend((s.name, h) for h in p['harness'])
            if len(samples) < MAX_SAMPLES and p['samples'] and \
                    sum(1 for x in samples if x['sub'] == s.name) < 1:
                samples.append(dict(sub=s.name, **p['samples'][0]))
        new_v = []
        for v in sv:
            k = match_known(known, s.name, v['key'])
            if k is not None:
                known_hit[(s.name, k['text'])] += 1
            else:
                new_v.append(v)
        nontriv = status['ok'] + status['violation']
        guard = []
        if len(s._cases) and not sv:
            if nontriv < s.min_nontrivial:
                guard.append(f'only {nontriv} non-trivial cases (< {s.min_nontrivial})')
            if s.min_outcomes and len(outcomes) < min(s.min_outcomes, len(s._cases)):
                guard.append(f'only {len(outcomes)} distinct outcomes')
            for f in s.require_flags:
                if flags[f] == 0:
                    guard.append(f'flag {f!r} never observed')
        for g in guard:
            harness_msgs.append((s.name, dict(msg='non-vacuity guard: ' + g)))
        exhaustive = exhaustive and s.exhaustive
        per_sub.append(dict(
            name=s.name, cases=len(s._cases), ok=status['ok'],
            trivial=status['trivial'], raised_allowed=status['raised_ok'],
            violations=status['violation'], new_violations=len(new_v),
            evaluations=agg['evals'], outcomes=len(outcomes),
            states=agg['states'], transitions=agg['transitions'],
            traces_validated_against_impl=agg['traces'],
            flags=dict(flags), skipped_reasons=dict(reasons.most_common(6)),
            bound=s.bound, exhaustive=s.exhaustive, cpu_s=round(agg['wall'], 2),
            note=s.note))
        tot['evals'] += agg['evals']
        tot['nontrivial'] += nontriv
        tot['states'] += agg['states']
        tot['transitions'] += agg['transitions']
        tot['traces'] += agg['traces']
        tot['trivial'] += status['trivial']
        tot['raised'] += status['raised_ok']
        tot['cases'] += len(s._cases)
        all_viol.extend((s.name, v) for v in new_v)

    head, dirty = repo_state()
    wall = time.time() - t_start
    level = getattr(drv, 'LEVEL', 'exploration')
    coverage = dict(
        evaluations=tot['evals'],
        distinct_nontrivial=tot['nontrivial'],
        rule=getattr(drv, 'RULE', '') + ' | complete enumeration of every sub-check\'s '
        'case list (cases are distinct by construction, checked); non-trivial = oracle '
        'evaluated away from a detected discontinuity / active numerical guard',
        samples=samples or [dict(note='no case produced a sample')],
        exhaustive=bool(exhaustive),
        cases=tot['cases'], skipped_trivial=tot['trivial'],
        exceptions_allowed=tot['raised'],
        outcomes=sum(p['outcomes'] for p in per_sub),
        sub_checks=per_sub,
        repo_head=head, repo_dirty=dirty, workers=workers,
        known_findings=[dict(sub=k[0], text=k[1], hits=n) for k, n in known_hit.items()],
    )
    if level == 'model_checking':
        coverage['states'] = max(tot['states'], 0)
        coverage['transitions'] = max(tot['transitions'], 0)
        coverage['traces_validated_against_impl'] = tot['traces']
    ev = dict(property_id=prop, tier=tier, seed=seed, level=level,
              coverage=coverage, wall_s=round(wall, 2),
              violations=len(all_viol),
              assumptions=list(getattr(drv, 'ASSUMPTIONS', [])))

    rc = 0
    for (sname, text), n in sorted(known_hit.items()):
        print(f'KNOWN-FINDING: property={prop} {text} [{sname}: {n} case(s)]')
    if all_viol:
        rc = 1
        # trial runs against a scratch worktree keep their artefacts apart from those of /repo
        vdir = os.path.join(HERE if REPO == '/repo' else '/var/tmp/pbbss_trial', 'violations', prop)
        os.makedirs(vdir, exist_ok=True)
        for sname, v in all_viol[:MAX_VIOLATION_FILES]:
            art = dict(property=prop, sub=sname, key=v['key'], seed=seed, tier=tier,
                       msg=v.get('msg'), observed=v.get('observed'),
                       expected=v.get('expected'), tb=v.get('tb'))
            h = hashlib.sha1(json.dumps([sname, v['key']], sort_keys=True,
                                        default=str).encode()).hexdigest()[:12]
            path = os.path.join(vdir, f'{sname}-{h}.json')
            with open(path, 'w') as f:
                json.dump(art, f, indent=1, default=str)
            print(f'VIOLATION property={prop} replay={path}')
            print(f'   [{sname}] {str(v.get("msg"))[:400]}')
        if len(all_viol) > MAX_VIOLATION_FILES:
            print(f'   ... {len(all_viol) - MAX_VIOLATION_FILES} further violations not written')
    if harness_msgs:
        for sname, h in harness_msgs[:10]:
            print(f'HARNESS-ERROR: [{sname}] {h.get("msg")}')
            if h.get('tb'):
                print(h['tb'])
        if rc == 0:
            rc = 2
    if not args.no_evidence and not args.only:
        try:
            validate_evidence(ev)
        except Exception as e:  # noqa
            print('HARNESS-ERROR: evidence does not validate:', _short(e, 500))
            rc = rc or 2
        os.makedirs(os.path.join(HERE, 'evidence'), exist_ok=True)
        with open(os.path.join(HERE, 'evidence', f'{prop}.json'), 'w') as f:
            json.dump(ev, f, indent=1, default=str)
    print(f'{prop} tier={tier} seed={seed}: cases={tot["cases"]} evaluations={tot["evals"]} '
          f'nontrivial={tot["nontrivial"]} trivial={tot["trivial"]} raised_allowed={tot["raised"]} '
          f'states={tot["states"]} transitions={tot["transitions"]} '
          f'violations={len(all_viol)} known={sum(known_hit.values())} wall={wall:.1f}s')
    for p in per_sub:
        print(f'   {p["name"]:38s} cases={p["cases"]:7d} ok={p["ok"]:7d} triv={p["trivial"]:6d} '
              f'exc={p["raised_allowed"]:5d} viol={p["violations"]:5d} outcomes={p["outcomes"]:6d} '
              f'cpu={p["cpu_s"]:.1f}s')
    return rc


if __name__ == '__main__':
    sys.exit(main())
