"""Single place where the implementation under test (pb_bss from /repo) is imported."""
import types


def dist():
    import pb_bss.distribution as d
    from pb_bss.distribution import complex_bingham as cb
    ns = types.SimpleNamespace(**{k: getattr(d, k) for k in dir(d) if not k.startswith('_')})
    ns.ComplexBingham = cb.ComplexBingham
    ns.ComplexBinghamTrainer = cb.ComplexBinghamTrainer
    return ns
