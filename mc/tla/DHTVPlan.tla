---- MODULE DHTVPlan ----
(* The DHTV alignment plan as a step machine: cover the main segment, then alternately the  *)
(* higher and lower segments; the last higher segment is stretched to F, the last lower one  *)
(* to 0 (the main segment where no such segment exists).  Every behaviour of this model is   *)
(* replayed against DHTVPermutationAlignment.alignment_plan by mc/props/c16.py.              *)
EXTENDS Naturals, Sequences, FiniteSets
CONSTANT MaxF
VARIABLES F, start, width, shift, pos, covered

HigherStarts(f, s, w, sh) == { x \in 0..f : x > s /\ (x - s) % sh = 0 /\ x < f - w }
LowerStarts(f, s, w, sh)  == { x \in 1..f : x < s /\ (s - x) % sh = 0 }
NH(f,s,w,sh) == Cardinality(HigherStarts(f,s,w,sh))
NL(f,s,w,sh) == Cardinality(LowerStarts(f,s,w,sh))
Higher(f,s,w,sh,j) == <<s + j*sh, IF j = NH(f,s,w,sh) THEN f ELSE s + j*sh + w>>
Lower(f,s,w,sh,j)  == <<IF j = NL(f,s,w,sh) THEN 0 ELSE s - j*sh, s - j*sh + w>>
Main(f,s,w,sh) == <<IF NL(f,s,w,sh) = 0 THEN 0 ELSE s, IF NH(f,s,w,sh) = 0 THEN f ELSE s + w>>
RECURSIVE Inter(_,_,_,_,_,_)
Inter(f,s,w,sh,i,j) ==
  IF i >= NH(f,s,w,sh) /\ j >= NL(f,s,w,sh) THEN <<>>
  ELSE (IF i < NH(f,s,w,sh) THEN <<Higher(f,s,w,sh,i+1)>> ELSE <<>>)
       \o (IF j < NL(f,s,w,sh) THEN <<Lower(f,s,w,sh,j+1)>> ELSE <<>>)
       \o Inter(f,s,w,sh, IF i < NH(f,s,w,sh) THEN i+1 ELSE i, IF j < NL(f,s,w,sh) THEN j+1 ELSE j)
Plan(f,s,w,sh) == <<Main(f,s,w,sh)>> \o Inter(f,s,w,sh,0,0)

Init == /\ F \in 2..MaxF /\ start \in 0..MaxF /\ width \in 1..MaxF /\ shift \in 1..MaxF
        /\ start + width <= F /\ shift <= width
        /\ pos = 0 /\ covered = {}
Seg == Plan(F,start,width,shift)[pos+1]
Next == /\ pos < Len(Plan(F,start,width,shift))
        /\ covered' = covered \cup { x \in 0..(F-1) : x >= Seg[1] /\ x < Seg[2] }
        /\ pos' = pos + 1
        /\ UNCHANGED <<F,start,width,shift>>
Overlap == (shift < width /\ pos >= 1 /\ pos < Len(Plan(F,start,width,shift))) =>
             \E x \in covered : x >= Seg[1] /\ x < Seg[2]
Coverage == pos = Len(Plan(F,start,width,shift)) => covered = 0..(F-1)
InRange == \A i \in 1..Len(Plan(F,start,width,shift)) :
             LET sg == Plan(F,start,width,shift)[i] IN sg[1] >= 0 /\ sg[2] <= F /\ sg[1] < sg[2]
====
