---- MODULE TrainerCache ----
(* Dimension cache of the stateful trainers (CWMMTrainer, CBMMTrainer, ComplexWatsonTrainer,   *)
(* ComplexBinghamTrainer): the first accepted fit fixes the feature dimension; a later fit with *)
(* another dimension is rejected and changes nothing.  Every maximal path of this model is      *)
(* replayed on fresh trainer objects by mc/props/c20.py.                                        *)
EXTENDS Naturals, Sequences
CONSTANT MaxLen
VARIABLES dim, hist, outs

Dims == {2, 3}
None == 0

Init == dim = None /\ hist = <<>> /\ outs = <<>>

Fit(d) == /\ Len(hist) < MaxLen
          /\ hist' = Append(hist, d)
          /\ IF dim = None \/ dim = d
               THEN /\ dim' = d /\ outs' = Append(outs, "accept")
               ELSE /\ dim' = dim /\ outs' = Append(outs, "reject")

Next == \E d \in Dims : Fit(d)

TypeOK == dim \in {None} \cup Dims /\ Len(hist) = Len(outs) /\ Len(hist) <= MaxLen
NeverChangesDim == \A i \in 1..Len(hist) :
                      (outs[i] = "accept") => (\A j \in 1..Len(hist) : outs[j] = "accept" => hist[j] = hist[i])
====
