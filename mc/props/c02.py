"""C02 — EM iterations never decrease the mixture log-likelihood.

Explicit-state exploration of EM trajectories: state = model after iteration i of one
(family, options, data set, start); transition = one EM iteration executed by the
implementation (observed through the iteration hook and cross-checked with
fit(iterations=i)); for cACGMM additionally the jump edges
fit(initialization=model_i, iterations=j) which must land on state i+j."""
import numpy as np

from mc.core import Sub, ok, trivial, viol
from mc import alphabet as A
from mc import scenarios as S
from mc import tol
from mc.refmodels import em as EM
from mc.refmodels import mixtures as M

LEVEL = 'model_checking'
RULE = ('full product of model family/options x weight tying x saliency x eps x K x D x F x data sets x '
        'starts; every iteration of every trajectory is a state, its independent mixture log-likelihood is '
        'compared along every EM edge and every jump edge')
ASSUMPTIONS = ['independent log-likelihood uses the reference densities (mpmath) and the stored weights',
               'edges with an active numerical guard (cACG eigenvalue < 1e4*floor, Watson concentration at a '
               'bound, affiliation at the clip, a Gaussian class collapsed: all but 1e-6 of its mass on <= D points (full) '
               '/ one point (diagonal, spherical), or a variance below 1e-20 of the data variance) are counted but '
               'not judged']

FAMILIES = (
    [('cacgmm', dict(covariance_norm=n, hermitize=h)) for n in ('eigenvalue', 'trace', False) for h in (True, False)]
    + [('cwmm', {})]
    + [('gmm', dict(covariance_type=t)) for t in ('full', 'diagonal', 'spherical')]
    + [('gcacgmm', dict(covariance_type=t)) for t in ('spherical', 'diagonal', 'full')]
    # covariance handed over by the caller and kept fixed (means and weights are still exact M-steps)
    + [('gmm', dict(covariance_type=t, fixed_covariance='fixed')) for t in ('full', 'diagonal', 'spherical')]
    + [('gcacgmm', dict(covariance_type='spherical', fixed_covariance='fixed'))]
)


def fixed_cov(model, ct, lead, K, D):
    """class dependent, well conditioned covariance of the shape the trainer documents."""
    E = 3 if model in M.INTEGRATION else D
    pre = () if model in M.INTEGRATION else tuple(lead)
    scale = 0.4 + 0.35 * np.arange(K)
    if ct == 'full':
        base = np.eye(E) + 0.2
        out = scale[:, None, None] * base
    elif ct == 'diagonal':
        out = scale[:, None] * (1.0 + 0.5 * np.arange(E))
    else:
        out = scale.copy()
    return np.broadcast_to(out, pre + out.shape).copy()


def make_data(seed, model, lead, K, D, ds):
    N = 4 * K * D
    cplx = model in M.COMPLEX_OBS
    per = N // K
    if ds == 'big_outlier':
        # a far outlier only stays far if it cannot inflate the covariance of its class: its squared
        # Mahalanobis distance is bounded by (class mass) / (its own weight), so the class must be large
        per = 1200
        N = K * per
    if ds == 'long':
        # a long recording: more frames than any internal block size; the sources move in the last quarter
        per = 11192
        N = K * per
    if ds == 'diffuse':
        # many frames of a weak directional source in diffuse noise plus a purely diffuse class: the maximum
        # likelihood concentrations are of order one although there are many channels (only visible for large N)
        N = 20000
        r = A.rng(seed, 'c02diffuse', model, K, D)
        steer = np.exp(2j * np.pi * r.uniform(size=D))
        lab = r.uniform(size=lead + (N, 1)) < 0.4
        src = 1.2 * steer * np.exp(2j * np.pi * r.uniform(size=lead + (N, 1)))
        nz = A.cnormal(r, lead + (N, D)) * np.sqrt(2)
        y = np.where(lab, src + nz, nz)
    elif ds.startswith('close') and cplx:
        # tight classes of unequal spread (concentrations of about 300, 80, 35; 'close', 'close_b', ... are independent draws) whose directions are only 0.15 rad apart: they overlap,
        # so the value of each class normaliser matters for the posterior
        r = A.rng(seed, 'c02close', ds, model, K, D, lead)
        y = np.zeros(lead + (N, D), complex)
        for idx in np.ndindex(*lead):
            Q, _ = np.linalg.qr(A.cnormal(r, (D, D)))
            lab = np.arange(N) % K
            ang = 0.15 * lab
            base = np.zeros((N, D), complex)
            base[:, 0], base[:, 1] = np.cos(ang), np.sin(ang)
            z = base + (0.08 * (1 + lab))[:, None] * A.cnormal(r, (N, D)) / np.sqrt(D)
            y[idx] = (z * np.exp(2j * np.pi * r.uniform(size=(N, 1)))) @ Q.T
    elif ds == 'unclustered':
        y = A.generic_data(seed, lead + (N, D), 'c02', model, K, D, complex_=cplx)
    else:
        y, _ = A.clustered_data(seed, lead, K, per, D, 'c02', ds, model, complex_=cplx,
                                noise={'clustered': 0.3, 'tight': 0.1, 'small': 0.3}.get(ds, 0.5))
        if ds == 'long':
            # overlapping classes drawn from random covariances; other covariances in the last quarter
            r = A.rng(seed, 'c02long', model, K, D)
            y = np.zeros(lead + (N, D), complex)
            cut = (3 * N) // 4
            for idx in np.ndindex(*lead):
                for part, (lo, hi) in enumerate(((0, cut), (cut, N))):
                    lab = r.integers(0, K, size=hi - lo)
                    for k in range(K):
                        Lk = np.linalg.cholesky(A.hpd(seed, D, 20.0, 'c02long', idx, part, k))
                        sel = np.where(lab == k)[0] + lo
                        y[idx][sel] = A.cnormal(r, (len(sel), D)) @ Lk.conj().T
        if ds == 'big_outlier':
            # interleave the classes so that no start is aligned with the true partition
            y = np.ascontiguousarray(y[..., np.argsort(np.arange(N) % per, kind='stable'), :])
        if not cplx:
            r = A.rng(seed, 'c02shift', model, K, D, ds)
            # real (Gaussian) data: a common offset, large compared with the spread for the 'tight' sets
            y = y + r.standard_normal(D) * (0.5 if ds != 'tight' else 1e6)
    if ds == 'small' and not cplx:
        # the same clustered set at a thousandth of the scale (likelihood monotonicity is scale free)
        y = np.array(y) * 1e-3
    if ds in ('outlier', 'big_outlier') and not cplx:
        # one observation far away from every cluster (60 times the spread): its best log-density is more than
        # 745 below that of the other observations
        y = np.array(y)
        y[..., 0, :] += 60.0 * 0.5
    if model in M.INTEGRATION:
        emb, _ = A.clustered_data(seed, lead, K, per, 3, 'c02emb', ds, complex_=False, noise=0.4)
        if ds == 'outlier':
            emb = np.array(emb)
            emb[..., 0, :] += 60.0 * 0.4
        return (y, emb), N
    return y, N


def gaussian_collapsed(m, scale2):
    """a Gaussian class whose (co)variance is at the rounding level of the data (the class sits on a single
    point; its exact ML variance is zero and the likelihood unbounded): degenerate state, every value of the
    stored variance is rounding noise."""
    g = getattr(m, 'gaussian', None)
    if g is None:
        return False
    if hasattr(g, 'covariance'):
        c = np.asarray(g.covariance)
        if c.ndim >= 2 and c.shape[-1] == c.shape[-2] and type(g).__name__ == 'Gaussian':
            v = np.linalg.eigvalsh((c + np.swapaxes(c, -1, -2)) / 2).min()
        else:
            v = c.min()
    else:
        v = 1.0 / np.asarray(g.precision).max()
    return bool(v < 1e-20 * scale2)


def gaussian_support_collapsed(m, aff, sal):
    """a Gaussian class whose mass sits (up to 1e-6 of it) on no more points than its covariance model can
    span (D for full, 1 for diagonal / spherical): the exact ML covariance is singular, the likelihood
    unbounded, and the stored smallest variance is determined by rounding."""
    g = getattr(m, 'gaussian', None)
    if g is None:
        return False
    D = np.asarray(g.mean).shape[-1]
    need = D if type(g).__name__ == 'Gaussian' else 1
    a = np.asarray(aff, dtype=float)
    if sal is not None:
        a = a * np.asarray(sal)[..., None, :]
    srt = np.sort(a, axis=-1)[..., ::-1]
    top = srt[..., :need].sum(-1)
    tot = srt.sum(-1)
    return bool((top >= (1 - 1e-6) * tot).any())


def guards(model, m, floor=1e-10, kmax=500.0, scale2=None):
    """True if a numerical guard is active in this state."""
    if scale2 is not None and model in ('gmm', 'gcacgmm') and gaussian_collapsed(m, scale2):
        return 'gaussian variance at rounding level (class on a single point)'
    if model in ('cacgmm', 'gcacgmm'):
        lam = np.asarray(m.cacg.covariance_eigenvalues)
        if (lam / lam.max(-1, keepdims=True)).min() < 1e4 * floor:
            return 'cacg eigenvalue near floor'
    if model == 'cwmm':
        k = np.asarray(m.complex_watson.concentration)
        if (k <= 1e-3).any() or (k >= kmax * (1 - 1e-9)).any():
            return 'watson concentration at bound'
    return None


def run_traj(key):
    from pb_bss import _verif
    fam, wca, salk, eps, K, D, F, ds, start, n, seed = (key[k] for k in (
        'family', 'wca', 'sal', 'eps', 'K', 'D', 'F', 'data', 'start', 'n', 'seed'))
    model, fopts = FAMILIES[fam]
    wca = tuple(wca) if isinstance(wca, (list, tuple)) else wca
    integ = model in M.INTEGRATION
    lead = (F,) if (integ or F > 1) else ()
    data, N = make_data(seed, model, lead, K, D, ds)
    if start == 'raw':
        # strictly positive, but the classes do not sum to one (independent soft masks)
        init = A.rng(seed, 'c02rawstart', lead, K, N).uniform(0.1, 1.0, size=lead + (K, N))
    else:
        init = A.soft_affiliation(seed, lead, K, N, 'c02start', start, floor=0.1 * (1 + start))
    if salk == 'cross':
        # absolute saliency scale at which the class masses straddle 1e-10: the first third of the frames
        # carries three times the saliency of the rest, total masses around 2e-10 and 0.7e-10
        g = A.graded_saliency(lead, N)
        g[..., : N // 3] *= 3.0
        sal = g * (1.6e-10 * K / N)
    else:
        sal = S.make_saliency(lead, N, salk)
    opts = dict(fopts)
    if opts.get('fixed_covariance') == 'fixed':
        opts['fixed_covariance'] = fixed_cov(model, opts['covariance_type'], lead, K, D)
    opts['weight_constant_axis'] = wca
    if sal is not None:
        opts['saliency'] = sal
    eps_used = 0.0
    if model in ('cacgmm', 'gcacgmm'):
        eps_used = 1e-10 if eps == 'default' else 0.0
        opts['affiliation_eps'] = eps_used
    trace = []
    _verif.clear()
    _verif.register(lambda **kw: trace.append((kw['model'], np.array(kw['affiliation']))))
    try:
        final = M.fit(model, data, init, n, **opts)
    except Exception as e:  # noqa
        if 'ill-defined empirical covariance' in str(e):
            # EM of a Gaussian family collapsed a class onto too few points: the covariance guard of
            # the library (Cholesky of a singular matrix) is a numerical guard in the sense of C02
            return trivial('Gaussian covariance guard active (class collapsed)')
        return viol(f'{model}{fopts}: fit raised on data in general position: {e!r}')
    finally:
        _verif.clear()
    if len(trace) != n:
        return viol(f'hook saw {len(trace)} of {n} iterations')
    shape = lead + (K, N)
    Ls, guarded = [], []
    yv = data[1] if integ and model == 'gcacgmm' else data
    yv = yv[0] if isinstance(yv, tuple) else yv
    scale2 = float(np.var(np.asarray(yv).real)) if not np.iscomplexobj(yv) else None
    for i, (m_i, g_i) in enumerate(trace):
        try:
            ref = EM.from_impl(model, m_i, shape)
            table, _ = EM.logpdf_table(model, ref, data)
            L = M.mixture_loglik(table, ref['pi'], sal)
        except np.linalg.LinAlgError as e:
            if model in ('gmm', 'gcacgmm'):
                # a Gaussian class collapsed onto a numerically singular covariance: guard state
                Ls.append(float('nan'))
                guarded.append('gaussian covariance singular')
                continue
            return viol(f'{model}: state {i} cannot be evaluated: {e!r}')
        except Exception as e:  # noqa
            return viol(f'{model}: state {i} cannot be evaluated: {e!r}')
        if not np.isfinite(L):
            return viol(f'{model}: log-likelihood of state {i} is {L!r}')
        Ls.append(L)
        g = guards(model, m_i, scale2=scale2)
        if g is None and model in ('gmm', 'gcacgmm') and gaussian_support_collapsed(m_i, g_i, sal):
            g = 'gaussian class supported by no more points than its covariance can span'
        if g is None and eps_used and i + 1 < n:
            nxt = trace[i + 1][1]
            if (nxt <= eps_used * (1 + 1e-9)).any() or (nxt >= 1 - eps_used * (1 + 1e-9)).any():
                g = 'affiliation at the clip'
        guarded.append(g)
        if model == 'cacgmm' and sal is None:
            y = data
            try:
                ll = float(m_i.log_likelihood(y))
            except Exception as e:  # noqa
                return viol(f'CACGMM.log_likelihood raised {e!r}')
            if abs(ll - L) > 1e-9 * (1 + abs(L)) * N:
                return viol(f'CACGMM.log_likelihood = {ll!r} but the mixture log-likelihood '
                            f'(weights included) of state {i} is {L!r}', ll, L)
    n_guard = 0
    increasing = 0
    for i in range(n - 1):
        if guarded[i] or guarded[i + 1]:
            n_guard += 1
            continue
        if tol.worse(Ls[i + 1], Ls[i]):
            return viol(f'{model}{fopts} wca={wca} sal={salk}: log-likelihood decreases from state {i} '
                        f'({Ls[i]!r}) to state {i + 1} ({Ls[i + 1]!r})', Ls[i + 1], Ls[i])
        if Ls[i + 1] > Ls[i] + 1e-9 * (1 + abs(Ls[i])):
            increasing += 1
    transitions = n - 1
    # hook cross-check and jump edges
    for i in sorted({1, n // 2, n}):
        try:
            m = M.fit(model, data, init, i, **opts)
        except Exception as e:  # noqa
            return viol(f'fit(iterations={i}) raised {e!r}')
        fa, fb = M.fields(model, m), M.fields(model, trace[i - 1][0])
        for name in fa:
            bad = tol.mismatch(fa[name], fb[name], tol.TIGHT,
                               what=f'{model} {name}: fit(iterations={i}) vs traced state {i - 1}')
            if bad:
                return viol(bad)
        transitions += 1
    if model == 'cacgmm':
        for i in sorted({0, 1, n // 3, n - 6}):
            for j in (1, 2, 3, 5):
                if i < 0 or i + j >= n:
                    continue
                try:
                    m = M.fit(model, data, trace[i][0], j, **opts)
                except Exception as e:  # noqa
                    return viol(f'continued fit from state {i} raised {e!r}')
                fa, fb = M.fields(model, m), M.fields(model, trace[i + j][0])
                for name in fa:
                    bad = tol.mismatch(fa[name], fb[name], tol.ITER,
                                       what=f'jump edge fit(initialization=model_{i}, iterations={j}) '
                                            f'does not land on state {i + j}: {name}')
                    if bad:
                        return viol(bad)
                transitions += 1
    flags = ['increasing'] if increasing else ['flat']
    if n_guard:
        flags.append('guarded_edges')
    if n_guard == n - 1:
        return trivial('every edge guarded', states=n, transitions=transitions, flags=flags)
    return ok(outcome=tol.digest(np.nan_to_num(np.array(Ls))), states=n, transitions=transitions, evals=n + 3,
              flags=flags, detail=dict(L_first=Ls[0], L_last=Ls[-1], guarded_edges=n_guard), traces=1)


def subchecks(tier, seed):
    thorough = tier == 'thorough'
    n = 50 if thorough else 12
    datasets = ('clustered', 'unclustered', 'tight', 'outlier', 'small') if not thorough else \
        ('clustered', 'unclustered', 'tight', 'loose', 'outlier', 'small')
    starts = (0, 1, 2, 'raw')

    def cases():
        for fam, (model, fopts) in enumerate(FAMILIES):
            integ = model in M.INTEGRATION
            for F in (1, 2):
                nd = 3 if (integ or F > 1) else 2
                if integ:
                    wcas = ((-1,), (-3,), (-3, -1), (-3, -2, -1))
                else:
                    wcas = ((-1,), -2, (-2,)) + (((-3,), (-3, -1)) if nd == 3 else ())
                for wca in wcas:
                    for salk in ('none', 'graded', 'tiny', 'cross'):
                        for eps in (('default', 0.0) if model in ('cacgmm', 'gcacgmm') else ('none',)):
                            for K in (2, 3):
                                for D in (2, 3):
                                    for ds in datasets + ('close', 'close_b', 'close_c', 'close_d'):
                                        if ds in ('outlier', 'small') and model not in ('gmm', 'gcacgmm'):
                                            continue
                                        if ds.startswith('close') and (model not in ('cwmm', 'cacgmm') or D != 3 or
                                                              salk != 'none'):
                                            continue
                                        for st in starts:
                                            if ds in ('outlier', 'small') and not thorough and (salk != 'none' or st):
                                                continue
                                            if st == 'raw' and (salk != 'none' or ds != 'clustered' or
                                                                (not thorough and (K, D) != (2, 3))):
                                                continue
                                            if not thorough:
                                                # quick: all pairs of (family, tying) with every data set;
                                                # remaining axes vary together (covering design)
                                                if (K, D) not in ((2, 3), (3, 2)) and (st != 0 or salk != 'none'):
                                                    continue
                                                if st == 2 and (eps == 0.0 or salk != 'none'):
                                                    continue
                                                if salk in ('tiny', 'cross') and (st != 0 or ds == 'tight' or K == 3):
                                                    continue
                                            yield (fam, wca, salk, eps, K, D, F, ds, st, n, seed)
    def big_cases():
        for fam, (model, fopts) in enumerate(FAMILIES):
            if model == 'cacgmm' and fopts == dict(covariance_norm='eigenvalue', hermitize=True):
                for st in (0, 1):
                    yield (fam, (-1,), 'none', 'default', 2, 2, 1, 'long', st, 3, seed)
            if model != 'gmm' or 'fixed_covariance' in fopts:
                continue
            for F, wcas in ((1, ((-1,), -2)), (2, ((-1,), (-3,)))):
                for wca in wcas:
                    for st in (0, 1):
                        yield (fam, wca, 'none', 'none', 2, 2, F, 'big_outlier', st, 4, seed)
    big = Sub('em_large_with_outlier',
              ('family', 'wca', 'sal', 'eps', 'K', 'D', 'F', 'data', 'start', 'n', 'seed'), big_cases, run_traj,
              bound=dict(iterations=4, N='2400 per slice, one observation 60 spreads away', K=2, D=2,
                         families='gmm full/diagonal/spherical'), require_flags=('increasing',))
    def wide_cases():
        for fam, (model, fopts) in enumerate(FAMILIES):
            if model == 'gmm' and not fopts.get('fixed_covariance'):
                # Gaussian features with 16 and 21 dimensions (e.g. embeddings), every covariance type
                for D in (16, 21):
                    for ds in ('unclustered', 'loose'):
                        for st in (0, 1):
                            yield (fam, (-1,), 'none', 'none', 2, D, 1, ds, st, 8, seed)
                continue
            if model not in ('cwmm', 'cacgmm') or fopts.get('hermitize') is False or \
                    fopts.get('covariance_norm', 'eigenvalue') != 'eigenvalue':
                continue
            for D in (12, 21):
                for ds in ('unclustered', 'loose', 'diffuse'):
                    for st in (0, 1):
                        if ds == 'diffuse' and (model != 'cwmm' or D != 21):
                            continue
                        yield (fam, (-1,), 'none', 'default' if model == 'cacgmm' else 'none', 2, D, 1, ds, st,
                               16 if ds == 'diffuse' else 8, seed)
    wide = Sub('em_many_channels',
               ('family', 'wca', 'sal', 'eps', 'K', 'D', 'F', 'data', 'start', 'n', 'seed'), wide_cases, run_traj,
               bound=dict(iterations=8, D=[12, 16, 21], K=2, families='cwmm, cacgmm, gmm (D = 16, 21)', note='low concentrations in many '
                          'channels'))
    return [big, wide, Sub('em_trajectories',
                ('family', 'wca', 'sal', 'eps', 'K', 'D', 'F', 'data', 'start', 'n', 'seed'),
                cases, run_traj,
                bound=dict(iterations=n, families=[f'{m}{o}' for m, o in FAMILIES],
                           N='4*K*D per slice', K=[2, 3], D=[2, 3], F=[1, 2],
                           datasets=list(datasets), starts=len(starts)),
                exhaustive=thorough, min_nontrivial=100,
                require_flags=('increasing',))][::-1]
