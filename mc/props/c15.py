"""C15 — oracle alignment is optimal and undoes any per-frequency permutation.

Exhaustive: all score matrices over {0,1,2} (K<=3); for K=4..6 all permutation
matrices with all single-entry perturbations; all K!^F permutation fields of vetted
reference masks (K,F,T<=3) x metric x algorithm; the flattened global case."""
import itertools

import numpy as np

from mc.core import Sub, ok, trivial, viol
from mc import alphabet as A
from mc import tol
from mc.refmodels import alignment as R

LEVEL = 'model_checking'
RULE = ('all {0,1,2}^(KxK) matrices K<=3; K=4..6: permutation matrices x every single-entry perturbation over '
        '{-1,0,1,2}; generic float matrices; all K!^F permutation fields (K,F<=3) of vetted references x 3 '
        'metrics x 2 algorithms; K=4,F=5 fields with <=2 non-identity bins; flattened global permutations')
ASSUMPTIONS = ['references are vetted: pairwise distinct normalised rows in every bin (gap >= 0.05), except the '
               '"near_equal" kind (two rows 1e-9 apart) which is only resolvable by the euclidean metric',
               'scipy.optimize.linear_sum_assignment as second oracle for the optimum']


def _pa():
    import pb_bss.permutation_alignment as pa
    return pa


def total(S, mapping):
    return sum(S[i, mapping[i]] for i in range(len(mapping)))


def check_matrix(pa, S):
    from scipy.optimize import linear_sum_assignment
    K = S.shape[0]
    mo = np.asarray(pa._mapping_from_score_matrix(S, algorithm='optimal'))
    mg = np.asarray(pa._mapping_from_score_matrix(S, algorithm='greedy'))
    for m, nm in ((mo, 'optimal'), (mg, 'greedy')):
        if sorted(m.tolist()) != list(range(K)):
            return f'{nm} assignment {m.tolist()} is not a permutation'
    best = R.brute_force_best_total(S)
    r, c = linear_sum_assignment(-np.asarray(S, float))
    lsa = float(np.asarray(S, float)[r, c].sum())
    to, tg = float(total(S, mo)), float(total(S, mg))
    if abs(best - lsa) > 1e-9 * (1 + abs(best)):
        return None   # oracles disagree: cannot judge (never happens for finite matrices)
    if to < best - 1e-9 * (1 + abs(best)):
        return f"'optimal' total {to} < maximum over all permutations {best} (mapping {mo.tolist()})"
    if tg > to + 1e-9 * (1 + abs(to)):
        return f'greedy total {tg} exceeds the optimal total {to}'
    return 'ne' if tg < to else 'eq'


def run_small(key):
    pa = _pa()
    K, idx = key['K'], key['idx']
    digits = []
    for _ in range(K * K):
        digits.append(idx % 3)
        idx //= 3
    S = np.array(digits[::-1]).reshape(K, K)
    for dt, scale in ((np.int64, 1), (np.float64, 1.0), (np.float32, 1e8), (np.float64, 1e17), (np.float64, -1e17)):
        # large magnitudes: x - 1 == x in floating point beyond 2^24 (float32) / 2^53 (float64)
        M_ = (S.astype(np.float64) * scale if scale > 0 else (S.astype(np.float64) - 2.0) * -scale).astype(dt)
        res = check_matrix(pa, M_)
        if res not in ('eq', 'ne', None):
            return viol(res + f' (dtype {np.dtype(dt).name}, scale {scale})', M_.tolist())
    # the returned mapping belongs to the caller: overwriting it must not change what later calls return
    Sf = S.astype(np.float64)
    for alg in ('optimal', 'greedy'):
        first = np.array(pa._mapping_from_score_matrix(Sf, algorithm=alg))
        handed = pa._mapping_from_score_matrix(Sf, algorithm=alg)
        try:
            handed[...] = 0
        except (ValueError, TypeError):
            pass                      # a read-only result cannot be corrupted
        again = np.asarray(pa._mapping_from_score_matrix(Sf, algorithm=alg))
        if not np.array_equal(again, first):
            return viol(f"'{alg}': after the caller overwrote a returned mapping, the same call returns "
                        f'{again.tolist()} instead of {first.tolist()}', S.tolist())
    return ok(outcome=res, flags=['greedy_lt_optimal'] if res == 'ne' else [], states=1, transitions=2)


def run_stacked(key):
    """a stack of score matrices with 1..3 leading axes (equal and unequal sizes): entry [:, i, j, ..] of the
    result is the optimal assignment of matrix [i, j, ..] and has the documented shape (K, *leading)."""
    pa = _pa()
    K, lead, alg, seed = key['K'], tuple(key['lead']), key['alg'], key['seed']
    r = A.rng(seed, 'c15stack', K, lead)
    n = int(np.prod(lead))
    perms = list(itertools.permutations(range(K)))
    S = r.integers(0, 3, size=lead + (K, K)).astype(float) + 0.01 * r.uniform(0, 1, lead + (K, K))
    # every matrix favours its own permutation, different ones in different bins
    for j, idx in enumerate(np.ndindex(*lead)):
        pm = perms[(3 * j + 1) % len(perms)]
        S[idx][range(K), pm] += 5.0
    S.setflags(write=False)
    try:
        got = np.asarray(pa._mapping_from_score_matrix(S, algorithm=alg))
    except Exception as e:  # noqa
        return viol(f'_mapping_from_score_matrix raised {e!r} for a stack of shape {S.shape}')
    if got.shape != (K,) + lead:
        return viol(f'mapping shape {got.shape} != documented {(K,) + lead}')
    for j, idx in enumerate(np.ndindex(*lead)):
        one = np.asarray(pa._mapping_from_score_matrix(S[idx], algorithm=alg))
        m = got[(slice(None),) + idx]
        if m.tolist() != one.tolist():
            return viol(f'{alg}: entry {list(idx)} of the stacked mapping is {m.tolist()}, the matrix alone gives '
                        f'{one.tolist()}')
        want = list(perms[(3 * j + 1) % len(perms)])
        if m.tolist() != want:
            return viol(f'{alg}: entry {list(idx)} is {m.tolist()}, the unique optimum is {want}')
    return ok(outcome=f'{K}:{lead}', evals=n + 1, states=n, transitions=n)


def run_perm_perturb(key):
    pa = _pa()
    K, pidx = key['K'], key['perm']
    perm = list(itertools.islice(itertools.permutations(range(K)), pidx, pidx + 1))[0]
    base = np.zeros((K, K))
    base[range(K), perm] = 1
    n = 0
    worst = None
    for i in range(K):
        for j in range(K):
            for v in (-1, 0, 1, 2):
                S = base.copy()
                S[i, j] = v
                res = check_matrix(pa, S)
                if res not in ('eq', 'ne', None):
                    return viol(res + f' (permutation matrix {perm} with entry ({i},{j}) set to {v})', S.tolist())
                n += 1
                worst = res
    # a generic real-valued matrix whose optimum is this permutation
    r = A.rng(key['seed'], 'c15pp', K, pidx)
    S = r.uniform(0, 1, (K, K))
    S[range(K), perm] += 1.0
    res = check_matrix(pa, S)
    if res not in ('eq', 'ne', None):
        return viol(res + f' (generic matrix favouring {perm})', S.tolist())
    mo = np.asarray(pa._mapping_from_score_matrix(S, algorithm='optimal'))
    if mo.tolist() != list(perm):
        return viol(f"'optimal' returns {mo.tolist()} for a matrix whose unique optimum is {list(perm)}")
    return ok(outcome=f'{K}:{perm}', evals=n + 1, states=n + 1, transitions=2 * (n + 1))


def reference_mask(seed, K, F, T, kind):
    r = A.rng(seed, 'c15ref', K, F, T, kind)
    for _ in range(200):
        if kind == 'binaryish':
            m = r.integers(0, 3, size=(K, F, T)).astype(float) + 0.25 * np.arange(K)[:, None, None]
        elif kind == 'antipodal':
            # signed reference whose first two class rows are exact negatives of each other (distinct rows)
            m = r.standard_normal((K, F, T))
            if K >= 2:
                m[1] = -m[0]
        else:
            m = r.uniform(0.05, 1.0, size=(K, F, T))
        if kind == 'near_equal' and K >= 2:
            m[1] = m[0]
            m[1, :, 0] += 1e-9
        if kind == 'long_tail' and K >= 2:
            # two classes that are equal in the first 90 % of the frames and differ in the tail only
            m[1, :, : (9 * T) // 10] = m[0, :, : (9 * T) // 10]
        if kind == 'weak' and K >= 3:
            # all classes but the first are more than 40 dB below the first one (distinct activity patterns)
            m[1:] *= 0.005
        okk = True
        for f in range(F):
            rows = R.normalise_rows(m[:, f])
            for a in range(K):
                for b in range(a + 1, K):
                    if kind == 'near_equal' and (a, b) == (0, 1):
                        continue
                    if (T > 1 and np.linalg.norm(rows[a] - rows[b]) < 0.05) or \
                            (kind != 'weak' and np.linalg.norm(m[a, f] - m[b, f]) < 0.05):
                        okk = False
        if okk:
            return m
    from mc.core import HarnessError
    raise HarnessError('cannot vet reference mask')


def run_fields(key):
    pa = _pa()
    K, F, T, kind, seed = key['K'], key['F'], key['T'], key['kind'], key['seed']
    if T == 1 and kind != 'near_equal':
        # with T=1 the cos metric sees every row as +-1: only euclidean/multiply are meaningful
        metrics = ('euclidean',)
    elif kind == 'near_equal':
        metrics = ('euclidean',)
    elif kind == 'antipodal' and T == 1:
        metrics = ('euclidean', 'multiply')
    else:
        metrics = ('cos', 'euclidean', 'multiply')
    ref = reference_mask(seed, K, F, T, kind)
    ref.setflags(write=False)
    perms = list(itertools.permutations(range(K)))
    n = 0
    if key['fields'] == 'all':
        fields = itertools.product(range(len(perms)), repeat=F)
    else:
        fields = []
        for bins in itertools.combinations(range(F), 2):
            for p1 in range(1, len(perms)):
                for p2 in (1, len(perms) - 1, len(perms) // 2):
                    fld = [0] * F
                    fld[bins[0]], fld[bins[1]] = p1, p2
                    fields.append(tuple(fld))
        fields += [tuple([p] + [0] * (F - 1)) for p in range(len(perms))]
    for fld in fields:
        mapping_in = np.array([perms[p] for p in fld]).T       # (K, F)
        mask = R.apply_mapping_loop(ref, mapping_in)
        for metric in metrics:
            if metric == 'multiply' and kind in ('binaryish', 'weak'):
                continue   # un-normalised inner products do not identify rows of different energy
            for alg in ('greedy', 'optimal'):
                al = pa.OraclePermutationAlignment(similarity_metric=metric, algorithm=alg)
                try:
                    out = al(mask, ref)
                    m = al.calculate_mapping(mask, ref)
                except Exception as e:  # noqa
                    return viol(f'Oracle({metric},{alg}) raised {e!r}')
                if not np.array_equal(out, ref):
                    return viol(f'Oracle({metric},{alg}) does not return the reference for the permutation '
                                f'field {mapping_in.T.tolist()}', np.asarray(m).tolist())
                n += 1
    return ok(outcome=f'{K},{F},{T},{kind}', evals=n, states=n, transitions=n * F)


def run_reuse(key):
    """one aligner object serves a sequence of references that live in the SAME buffer (refilled in place between
    the calls, as a block-online caller does): every call must return the reference it was given."""
    pa = _pa()
    K, F, T, metric, alg, seed = (key[k] for k in ('K', 'F', 'T', 'metric', 'alg', 'seed'))
    perms = list(itertools.permutations(range(K)))
    al = pa.OraclePermutationAlignment(similarity_metric=metric, algorithm=alg)
    buf = np.zeros((K, F, T))
    r = A.rng(seed, 'c15reuse', K, F, T)
    n = 0
    for step, kind in enumerate(('generic', 'binaryish', 'generic', 'generic')):
        if metric == 'multiply' and kind == 'binaryish':
            continue
        ref = reference_mask(seed + 17 * step, K, F, T, kind)
        buf[...] = ref                                   # same array object, new content
        fld = r.integers(0, len(perms), size=F)
        mapping_in = np.array([perms[p] for p in fld]).T
        mask = R.apply_mapping_loop(ref, mapping_in)
        try:
            out = al(mask, buf)
        except Exception as e:  # noqa
            return viol(f'Oracle({metric},{alg}) raised {e!r} in call {step} of a reused aligner')
        if not np.array_equal(buf, ref):
            return viol('the reference buffer was modified')
        if not np.array_equal(out, ref):
            return viol(f'Oracle({metric},{alg}) reused for a reference refilled in place: call {step} does not '
                        f'return its reference')
        n += 1
    return ok(outcome=f'{K},{F},{T},{metric},{alg}', evals=n, states=n, transitions=n)


def run_integer_masks(key):
    """0/1 masks in small integer dtypes with more than 127 / 255 ones per row."""
    pa = _pa()
    K, F, T, dt, seed = key['K'], key['F'], key['T'], key['dtype'], key['seed']
    r = A.rng(seed, 'c15int', K, F, T)
    ref = np.zeros((K, F, T), dtype=np.dtype(dt))
    owner = r.integers(0, K, size=(F, T))
    for k in range(K):
        ref[k] = (owner == k)
        ref[k, :, : T // 3] = np.maximum(ref[k, :, : T // 3],
                                         (r.integers(0, 3, size=(F, T // 3)) == 0).astype(ref.dtype))   # overlap
    for f in range(F):
        if len({ref[k, f].tobytes() for k in range(K)}) != K:
            return trivial('reference rows not distinct')
    perms = list(itertools.permutations(range(K)))
    n = 0
    for fld in itertools.product(range(len(perms)), repeat=F):
        mapping_in = np.array([perms[p] for p in fld]).T
        mask = R.apply_mapping_loop(ref, mapping_in)
        for metric in ('cos', 'euclidean', 'multiply'):
            if metric == 'multiply':
                continue
            for alg in ('greedy', 'optimal'):
                al = pa.OraclePermutationAlignment(similarity_metric=metric, algorithm=alg)
                try:
                    out = al(mask, ref)
                except Exception as e:  # noqa
                    return viol(f'Oracle({metric},{alg}) raised {e!r} on {dt} masks with T={T}')
                if not np.array_equal(out, ref):
                    return viol(f'Oracle({metric},{alg}) does not return the {dt} reference (T={T}) for the field '
                                f'{mapping_in.T.tolist()}')
                n += 1
    return ok(outcome=f'{K},{F},{T},{dt}', evals=n, states=n, transitions=n * F)


def run_global(key):
    pa = _pa()
    K, F, T, seed = key['K'], key['F'], key['T'], key['seed']
    ref = reference_mask(seed, K, F, T, 'generic')
    flat_ref = ref.reshape(K, F * T)
    n = 0
    for perm in itertools.permutations(range(K)):
        perm = list(perm)
        mask = ref[perm]
        flat = mask.reshape(K, F * T)
        for metric in ('cos', 'euclidean', 'multiply'):
            for alg in ('greedy', 'optimal'):
                al = pa.OraclePermutationAlignment(similarity_metric=metric, algorithm=alg)
                try:
                    m = np.asarray(al.calculate_mapping(flat, flat_ref))
                except Exception as e:  # noqa
                    return viol(f'Oracle({metric},{alg}) raised on flattened input: {e!r}')
                if m.shape != (K,) or sorted(m.tolist()) != list(range(K)):
                    return viol(f'global mapping {m.tolist()} is not a permutation of 0..K-1')
                if not np.array_equal(mask[m], ref):
                    return viol(f'Oracle({metric},{alg}): mask[mapping] does not recover the reference for the '
                                f'global permutation {perm} (mapping {m.tolist()})')
                n += 1
    return ok(outcome=f'{K},{F},{T}', evals=n, states=n, transitions=n)


def subchecks(tier, seed):
    thorough = tier == 'thorough'
    subs = []

    def small_cases():
        for K in (1, 2, 3):
            for idx in range(3 ** (K * K)):
                yield (K, idx)
    subs.append(Sub('score_matrices_small', ('K', 'idx'), small_cases, run_small,
                    bound=dict(alphabet='{0,1,2}^(KxK), K<=3'), require_flags=('greedy_lt_optimal',)))

    def stack_cases():
        leads = [(1,), (4,), (2, 2), (3, 3), (2, 3), (3, 2), (1, 4), (2, 2, 2), (2, 3, 2), (3, 1, 3)]
        for K in (2, 3, 4):
            for lead in leads:
                for alg in ('optimal', 'greedy'):
                    yield (K, lead, alg, seed)
    subs.append(Sub('score_matrix_stacks', ('K', 'lead', 'alg', 'seed'), stack_cases, run_stacked,
                    bound=dict(leading_axes='1..3 axes, equal and unequal sizes', K=[2, 3, 4])))

    def reuse_cases():
        for K in (2, 3):
            for F in (1, 3):
                for T in (2, 5):
                    for metric in ('cos', 'euclidean', 'multiply'):
                        for alg in ('greedy', 'optimal'):
                            yield (K, F, T, metric, alg, seed)
    subs.append(Sub('aligner_reuse', ('K', 'F', 'T', 'metric', 'alg', 'seed'), reuse_cases, run_reuse))

    def pp_cases():
        for K in (4, 5, 6):
            nperm = len(list(itertools.permutations(range(K))))
            step = 1 if (K < 6 or thorough) else 5
            for p in range(0, nperm, step):
                yield (K, p, seed)
    subs.append(Sub('permutation_matrices_perturbed', ('K', 'perm', 'seed'), pp_cases, run_perm_perturb,
                    bound=dict(K=[4, 5, 6], perturbation='every entry set to each of {-1,0,1,2}'),
                    exhaustive=thorough))

    def field_cases():
        for K in (2, 3):
            for F in (1, 3):
                for T in (1, 2, 3):
                    for kind in ('generic', 'binaryish', 'near_equal', 'antipodal'):
                        yield (K, F, T, kind, 'all', seed)
        for kind in ('generic', 'near_equal'):
            yield (4, 5, 3, kind, 'two_bins', seed)
        for T in (5000, 4097, 9000):
            yield (3, 3, T, 'long_tail', 'two_bins', seed)
        for T in (3, 8):
            yield (3, 3, T, 'weak', 'all', seed)
            yield (4, 3, T, 'weak', 'two_bins', seed)
    subs.append(Sub('permutation_fields', ('K', 'F', 'T', 'kind', 'fields', 'seed'), field_cases, run_fields,
                    bound=dict(fields='all K!^F for K,F<=3; K=4,F=5: <=2 non-identity bins')))

    def int_cases():
        for K in (2, 3):
            for T in (100, 200, 400, 700):
                for dt in ('int8', 'uint8', 'int16', 'bool', 'float32'):
                    if dt == 'bool':
                        continue
                    yield (K, 3, T, dt, seed)
    subs.append(Sub('integer_masks_long', ('K', 'F', 'T', 'dtype', 'seed'), int_cases, run_integer_masks))

    def global_cases():
        for K in (2, 3, 4):
            for F in (1, 3, 5):
                for T in (2, 4):
                    yield (K, F, T, seed)
    subs.append(Sub('global_permutation', ('K', 'F', 'T', 'seed'), global_cases, run_global))
    return subs
