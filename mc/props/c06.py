"""C06 — leading (frequency/batch) axes are independent problems.

Differential exploration: for every leading shape (all tuples of length 1..3 over
sizes {1,2,3}) with different content per slice, the stacked result indexed at a
slice equals the same call on that slice alone; singleton-leading starts behave
as their explicit repetition."""
import itertools

import numpy as np

from mc.core import Sub, ok, trivial, viol, raised_ok
from mc import alphabet as A
from mc import impl
from mc import scenarios as S
from mc import tol
from mc.refmodels import mixtures as M

LEVEL = 'exploration'
RULE = ('every leading shape of length 1..3 over sizes {1,2,3} (thorough: sizes up to 5 for length<=2) x '
        'object (8 single distributions: trainer + log_pdf; 5 mixture trainers x options) with different '
        'generic content per slice; stacked[slice] == stand-alone(slice)')
ASSUMPTIONS = ['eigen-objects compared in canonical form (U diag U^H, projectors)']


def lead_shapes(thorough):
    out = []
    for n in (1, 2, 3):
        out += list(itertools.product((1, 2, 3), repeat=n))
    if thorough:
        for n in (1, 2):
            for t in itertools.product((1, 2, 3, 4, 5), repeat=n):
                if t not in out:
                    out.append(t)
    return out


def _call(f):
    try:
        return f(), None
    except Exception as e:  # noqa
        return None, e


def single_fields(fam, m):
    if fam.startswith('gauss'):
        return dict(mean=np.asarray(m.mean), cov=np.asarray(m.covariance))
    if fam == 'cgauss':
        return dict(cov=np.asarray(m.covariance))
    if fam == 'vmf':
        return dict(mean=np.asarray(m.mean), kappa=np.asarray(m.concentration))
    if fam == 'watson':
        return dict(mode=M.canon_mode(m.mode), kappa=np.asarray(m.concentration))
    if fam == 'cacg':
        return dict(cov=M.canon_psd(m.covariance_eigenvectors, m.covariance_eigenvalues),
                    logeig=np.log(np.sort(np.asarray(m.covariance_eigenvalues), axis=-1)))
    if fam == 'bingham':
        return dict(cov=M.canon_psd(m.covariance_eigenvectors, m.covariance_eigenvalues))
    raise ValueError(fam)


def fit_single(fam, y, sal, opt):
    d = impl.dist()
    if fam.startswith('gauss'):
        return d.GaussianTrainer().fit(y, saliency=sal, covariance_type=fam.split('_')[1])
    if fam == 'cgauss':
        return d.ComplexCircularSymmetricGaussianTrainer().fit(y, saliency=sal)
    if fam == 'vmf':
        return d.VonMisesFisherTrainer().fit(y, saliency=sal)
    if fam == 'watson':
        return d.ComplexWatsonTrainer().fit(y, saliency=sal)
    if fam == 'cacg':
        return d.ComplexAngularCentralGaussianTrainer().fit(y, iterations=opt[0], covariance_norm=opt[1])
    if fam == 'bingham':
        return d.ComplexBinghamTrainer().fit(y, saliency=sal)
    raise ValueError(fam)


def run_single(key):
    fam, lead, D, N, salk, opt, seed = (key[k] for k in ('family', 'lead', 'D', 'N', 'sal', 'opt', 'seed'))
    lead = tuple(lead)
    opt = tuple(opt) if isinstance(opt, list) else opt
    cplx = fam in ('cgauss', 'watson', 'cacg', 'bingham')
    y = A.generic_data(seed, lead + (N, D), 'c06', fam, complex_=cplx)
    # slices of different scale / one slice with fewer effective frames than channels
    scale = 1.0 + np.arange(int(np.prod(lead))).reshape(lead)
    y = y * scale[..., None, None]
    if key['short'] == 'tight':
        # every slice strongly concentrated around its own direction / point (spread 1e-4): the slices have nearly
        # (not exactly) equal second-order statistics up to a rotation, e.g. nearly equal scatter eigenvalues
        y = y[..., :1, :] + 1e-4 * y
    elif key['short'] == 'graded':
        # every slice concentrated around its own direction with another spread (0.2, 0.13, 0.09, ...): the
        # concentrations of the slices range from about 50 to beyond the upper bound of the trainers
        spread = (0.2 / 1.5 ** np.arange(int(np.prod(lead)))).reshape(lead)
        proto = y[..., :1, :] / np.linalg.norm(y[..., :1, :], axis=-1, keepdims=True)
        y = proto + spread[..., None, None] * y / np.sqrt(D)
    elif key['short'] and int(np.prod(lead)) > 1:
        # last slice: isotropic inside a (D-1)-dimensional subspace (one eigenvalue reaches the floor,
        # moderate maximum); first slice: strongly concentrated (large maximal eigenvalue)
        idx0 = tuple(np.array(lead) - 1)
        y[idx0][:, D - 1] = 0
        first = (0,) * len(lead)
        y[first] = y[first][:1] + 0.05 * y[first]
    sal = S.make_saliency(lead, N, salk)
    if fam == 'cacg' and sal is not None:
        return trivial('cACG trainer documents saliency as not implemented')
    y.setflags(write=False)
    st, e = _call(lambda: fit_single(fam, y, sal, opt))
    if e is not None:
        if key['short'] is True:
            return trivial('stacked fit raised on the rank-deficient slice: ' + type(e).__name__)
        return viol(f'{fam}: stacked fit raised {e!r}')
    fs = single_fields(fam, st)
    rt = 1e-6 if fam in ('bingham',) else tol.TIGHT * 10
    n = 0
    for idx in np.ndindex(*lead):
        one, e = _call(lambda: fit_single(fam, np.ascontiguousarray(y[idx]),
                                          None if sal is None else sal[idx], opt))
        if e is not None:
            return viol(f'{fam}: stacked fit returned but slice {idx} alone raised {e!r}')
        f1 = single_fields(fam, one)
        for name in fs:
            a = fs[name]
            if a.shape[:len(lead)] != lead:
                return viol(f'{fam} {name}: leading shape {a.shape} does not start with {lead}')
            bad = tol.mismatch(a[idx], f1[name], rt, what=f'{fam} {name}: stacked{list(idx)} vs slice alone')
            if bad:
                return viol(bad)
        # log_pdf of the stacked model on stacked points vs slice model on slice points
        pts = y if fam not in ('watson', 'bingham') else M.unit_rows(y)
        if n == 0:
            lp, e = _call(lambda: st.log_pdf(pts))
            if e is not None:
                return viol(f'{fam}: stacked log_pdf raised {e!r}')
            lp = np.asarray(lp)
            if lp.shape != lead + (N,):
                return viol(f'{fam}: stacked log_pdf shape {lp.shape} != {lead + (N,)}')
        lp1, e = _call(lambda: one.log_pdf(pts[idx]))
        if e is not None:
            return viol(f'{fam}: log_pdf of slice model raised {e!r}')
        if np.isfinite(lp1).all():
            bad = tol.mismatch(lp[idx], lp1, rt * 100, what=f'{fam} log_pdf: stacked{list(idx)} vs slice alone')
            if bad:
                return viol(bad)
        n += 1
    return ok(outcome=tol.digest(fs[sorted(fs)[0]]), evals=n + 1)


HAND_FAMILIES = ('gauss_full', 'gauss_diagonal', 'gauss_spherical', 'cgauss', 'vmf', 'watson', 'cacg', 'bingham')
KAPPAS = {'vmf': (1e-6, 700.0, 30.0, 499.0, 1.0), 'watson': (10.0, 650.0, 1e-6, 499.0, 601.0)}


def hand_params(fam, seed, j, D, singular):
    """parameter set of slice number j: scales, concentrations and conditioning differ strongly between the
    slices of one stack; `singular`: slice 1 gets a parameter no model can be built from (rank-deficient
    covariance / zero variance)."""
    r = A.rng(seed, 'c06hand', fam, j, D)
    scale = (1.0, 1e-4, 1e4, 1e-2, 37.0)[j % 5]
    if fam.startswith('gauss'):
        mean = r.standard_normal(D) * np.sqrt(scale)
        if fam == 'gauss_full':
            Q = np.linalg.qr(r.standard_normal((D, D)))[0]
            ev = np.linspace(1.0, 10.0, D) * scale
            if singular and j == 1:
                ev[0] = 0.0
            return dict(mean=mean, covariance=(Q * ev) @ Q.T)
        if fam == 'gauss_diagonal':
            v = np.linspace(1.0, 10.0, D) * scale
            if singular and j == 1:
                v[0] = 0.0
            return dict(mean=mean, covariance=v)
        return dict(mean=mean, covariance=np.array(0.0 if (singular and j == 1) else scale))
    if fam == 'cgauss':
        C = A.hpd(seed, D, 10.0, 'c06hand', j) * scale
        return dict(covariance=C)
    if fam == 'vmf':
        m = r.standard_normal(D)
        return dict(mean=m / np.linalg.norm(m), concentration=np.array(KAPPAS['vmf'][j % 5]))
    U = A.unitary(seed, D, 'c06hand', fam, j)
    if fam == 'watson':
        return dict(mode=U[:, 0].copy(), concentration=np.array(KAPPAS['watson'][j % 5]))
    if fam == 'cacg':
        lam = np.logspace(0, -(j % 5) * 2, D) * scale
        return dict(covariance_eigenvectors=U, covariance_eigenvalues=lam)
    if fam == 'bingham':
        lam = -np.arange(D, dtype=float) * (0.5, 30.0, 1e-2, 3.0, 100.0)[j % 5]
        return dict(covariance_eigenvectors=U, covariance_eigenvalues=lam)
    raise ValueError(fam)


def hand_model(fam, params):
    d = impl.dist()
    cls = {'gauss_full': d.Gaussian, 'gauss_diagonal': d.DiagonalGaussian, 'gauss_spherical': d.SphericalGaussian,
           'cgauss': d.ComplexCircularSymmetricGaussian, 'vmf': d.VonMisesFisher, 'watson': d.ComplexWatson,
           'cacg': d.ComplexAngularCentralGaussian, 'bingham': d.ComplexBingham}[fam]
    return cls(**params)


def run_hand(key):
    """log_pdf of a stack of hand-built parameter sets vs each slice's own model."""
    fam, lead, D, N, singular, seed = (key[k] for k in ('family', 'lead', 'D', 'N', 'singular', 'seed'))
    lead = tuple(lead)
    cplx = fam in ('cgauss', 'watson', 'cacg', 'bingham')
    per = [hand_params(fam, seed, j, D, singular) for j in range(int(np.prod(lead)))]
    stacked = {k: np.stack([p_[k] for p_ in per]).reshape(lead + np.shape(per[0][k])) for k in per[0]}
    y = A.generic_data(seed, lead + (N, D), 'c06handy', fam, complex_=cplx)
    if fam in ('vmf', 'watson', 'bingham'):
        y = y / np.linalg.norm(y, axis=-1, keepdims=True)
    for a in list(stacked.values()) + [y]:
        a.setflags(write=False)
    alone = []
    for j, idx in enumerate(np.ndindex(*lead)):
        alone.append(_call(lambda: np.asarray(hand_model(fam, {k: np.array(v) for k, v in per[j].items()})
                                              .log_pdf(y[idx]))))
    lp, e = _call(lambda: np.asarray(hand_model(fam, stacked).log_pdf(y)))
    if e is not None:
        if any(e1 is not None for _, e1 in alone):
            return raised_ok(e)        # a slice cannot be built alone either
        return viol(f'{fam}: the stacked model raised {e!r} although every slice alone works')
    if lp.shape != lead + (N,):
        return viol(f'{fam}: stacked log_pdf shape {lp.shape} != {lead + (N,)}')
    n = 0
    for j, idx in enumerate(np.ndindex(*lead)):
        one, e1 = alone[j]
        if e1 is not None:
            continue                   # judged by C09: whether an unusable parameter has to raise
        if not np.isfinite(one).all():
            if not np.array_equal(np.isfinite(one), np.isfinite(lp[idx])):
                return viol(f'{fam}: stacked{list(idx)} and the slice alone are non-finite at different points')
            continue
        bad = tol.mismatch(lp[idx], one, tol.TIGHT * 100, what=f'{fam} log_pdf of hand-built parameters: '
                           f'stacked{list(idx)} vs slice alone')
        if bad:
            return viol(bad)
        n += 1
    if n == 0:
        return trivial('no slice evaluable')
    return ok(outcome=tol.digest(lp[np.isfinite(lp)]), evals=n + 1)


def run_mixture(key):
    model, lead, K, D, N, wca, salk, opt, its, seed = (key[k] for k in (
        'model', 'lead', 'K', 'D', 'N', 'wca', 'sal', 'opt', 'its', 'seed'))
    lead = tuple(lead)
    wca = tuple(wca) if isinstance(wca, (list, tuple)) else wca
    wca_alone = wca
    if wca == 'pos_last':
        # the sample axis named by its POSITIVE index in the (..., K, N) affiliation (same meaning as (-1,))
        wca, wca_alone = (len(lead) + 1,), (1,)
    trainer_kw = None
    if isinstance(opt, str) and opt.endswith('+eps'):
        opt = opt[:-4]
        trainer_kw = dict(eps=1e-2)       # constructor argument of GMMTrainer (non-default value)
    cplx = model in M.COMPLEX_OBS
    y = A.generic_data(seed, lead + (N, D), 'c06mm', model, complex_=cplx)
    scale = 1.0 + np.arange(int(np.prod(lead))).reshape(lead)
    y = y * scale[..., None, None]
    init = A.soft_affiliation(seed, lead, K, N, 'c06mm', model)
    variant = key['short']
    if variant == 'short' and int(np.prod(lead)) > 1:
        idx0 = tuple(np.array(lead) - 1)
        y[idx0][:, D - 1] = 0                      # rank D-1 slice: eigenvalues reach the floor
        first = (0,) * len(lead)
        y[first] = y[first][:1] + 0.05 * y[first]  # concentrated slice: large maximal eigenvalue
    if variant == 'extreme' and int(np.prod(lead)) > 1:
        idx0 = tuple(np.array(lead) - 1)
        if model == 'gmm':
            y[idx0] = y[idx0] * 1e-110             # log-densities ~ +750 nats above the other slices
        else:
            y[idx0][0] = 0                          # digital silence in one frame of one slice
    if variant == 'point':
        # nearly noise-free point sources (class covariances with eigenvalue ratios of 1e3 ... 1e6), another noise
        # level in every slice, start close to the true partition
        r = A.rng(seed, 'c06point', model, lead, K, D)
        steer = A.cnormal(r, lead + (K, D))
        lab = r.integers(0, K, size=lead + (N,))
        lab[..., :K] = np.arange(K)
        y = np.take_along_axis(steer, lab[..., None], axis=-2) * A.cnormal(r, lead + (N, 1))
        level = (10.0 ** -(1.5 + 0.5 * (np.arange(int(np.prod(lead))) % 4))).reshape(lead)
        y = y + level[..., None, None] * A.cnormal(r, lead + (N, D))
        init = np.full(lead + (K, N), 0.1 / (K - 1))
        np.put_along_axis(init, lab[..., None, :], 0.9, axis=-2)
    sal = S.make_saliency(lead, N, salk) if salk != 'bool' else None
    if salk == 'bool':
        # boolean selection of observations, another one in every slice
        sal = np.ones(lead + (N,), dtype=bool)
        for j, idx in enumerate(np.ndindex(*lead)):
            sal[idx][(j + 1) % N::3] = False
    opts = dict(weight_constant_axis=wca)
    if sal is not None:
        opts['saliency'] = sal
    if model == 'cacgmm':
        opts['covariance_norm'] = opt
    if model == 'gmm':
        opts['covariance_type'] = opt
    y.setflags(write=False)
    init.setflags(write=False)
    st, e = _call(lambda: M.fit(model, y, init, its, trainer_kw=trainer_kw, **opts))
    if e is not None:
        if key['short'] != 'plain':
            return trivial('stacked fit raised on degenerate slice: ' + type(e).__name__)
        if 'ill-defined empirical covariance' in str(e):
            return trivial('Gaussian covariance guard (EM collapsed a class onto too few points)')
        return viol(f'{model}: stacked fit raised on regular data: {e!r}')
    fs = M.fields(model, st)
    post, e = _call(lambda: M.predict(model, st, y))
    if e is not None:
        return viol(f'{model}: stacked predict raised {e!r}')
    rt = 1e-5 if model == 'cbmm' else tol.ITER if model == 'cwmm' else tol.TIGHT * 100
    n = 0
    for idx in np.ndindex(*lead):
        o1 = dict(opts)
        o1['weight_constant_axis'] = wca_alone
        if sal is not None:
            o1['saliency'] = sal[idx]
        one, e = _call(lambda: M.fit(model, np.ascontiguousarray(y[idx]), np.ascontiguousarray(init[idx]),
                                     its, trainer_kw=trainer_kw, **o1))
        if e is not None:
            if key['short'] != 'plain' or 'ill-defined empirical covariance' in str(e):
                continue
            return viol(f'{model}: slice {idx} alone raised {e!r}')
        f1 = M.fields(model, one)
        for name in fs:
            a, b = fs[name], f1[name]
            if name == 'weight':
                a = M.weight_full(model, st, lead + (K, N))[idx]
                b = M.weight_full(model, one, (K, N))
            else:
                if a.shape[:len(lead)] != lead:
                    return viol(f'{model} {name}: shape {a.shape} does not start with {lead}')
                a = a[idx]
            bad = tol.mismatch(a, b, rt, what=f'{model} {name}: stacked{list(idx)} vs slice alone')
            if bad:
                return viol(bad)
        p1, e = _call(lambda: M.predict(model, one, np.ascontiguousarray(y[idx])))
        if e is not None:
            return viol(f'{model}: predict of slice model raised {e!r}')
        bad = tol.mismatch(np.asarray(post)[idx], p1, rt * 10, what=f'{model} posterior: stacked{list(idx)} vs slice alone')
        if bad:
            return viol(bad)
        n += 1
    return ok(outcome=tol.digest(np.asarray(post)), evals=n + 1)


def run_singleton_start(key):
    model, lead, K, D, N, its, seed = (key[k] for k in ('model', 'lead', 'K', 'D', 'N', 'its', 'seed'))
    lead = tuple(lead)
    cplx = model in M.COMPLEX_OBS
    y = A.generic_data(seed, lead + (N, D), 'c06ss', model, complex_=cplx)
    pattern = key['pattern']          # which leading axes of the start are singleton
    shape1 = tuple(1 if pattern[i] else lead[i] for i in range(len(lead)))
    init1 = A.soft_affiliation(seed, shape1, K, N, 'c06ss', model, pattern)
    full = np.broadcast_to(init1, lead + (K, N)).copy()
    sopts = {}
    if key.get('sal'):
        # together with a per-slice saliency of the full leading shape
        sopts['saliency'] = S.make_saliency(lead, N, 'graded')
    a, e = _call(lambda: M.fit(model, y, init1, its, **sopts))
    if e is not None:
        return viol(f'{model}: fit with a singleton-leading start raised {e!r}')
    b, e = _call(lambda: M.fit(model, y, full, its, **sopts))
    if e is not None:
        return viol(f'{model}: fit with the repeated start raised {e!r}')
    fa, fb = M.fields(model, a), M.fields(model, b)
    rt = 1e-5 if model == 'cbmm' else tol.TIGHT * 100
    for name in fa:
        x, z = fa[name], fb[name]
        if name == 'weight':
            x = M.weight_full(model, a, lead + (K, N))
            z = M.weight_full(model, b, lead + (K, N))
        else:
            try:
                x = np.broadcast_to(x, z.shape)
            except ValueError:
                return viol(f'{model} {name}: shape {x.shape} vs {z.shape}')
        bad = tol.mismatch(x, z, rt, what=f'{model} {name}: singleton start vs repeated start')
        if bad:
            return viol(bad)
    pa, pb = M.predict(model, a, y), M.predict(model, b, y)
    bad = tol.mismatch(pa, pb, rt * 10, what=f'{model} posterior: singleton start vs repeated start')
    if bad:
        return viol(bad)
    return ok(outcome=tol.digest(pb))


def subchecks(tier, seed):
    thorough = tier == 'thorough'
    shapes = lead_shapes(thorough)
    subs = []

    def single_cases():
        for fam in ('gauss_full', 'gauss_diagonal', 'gauss_spherical', 'cgauss', 'vmf', 'watson', 'cacg',
                    'bingham'):
            for lead in shapes:
                if fam == 'bingham' and (len(lead) == 3 or int(np.prod(lead)) > 6) and not thorough:
                    continue
                for D in ((2,) if fam == 'bingham' else (2, 3, 8) if fam == 'watson' else (2, 3)):
                    N = D + 4
                    for salk in (('none',) if fam == 'cacg' else ('none', 'graded')):
                        opts = ((1, 'eigenvalue'), (5, 'eigenvalue'), (5, 'trace'), (2, False)) \
                            if fam == 'cacg' else ('default',)
                        for opt in opts:
                            for short in ((False, True, 'tight', 'graded') if fam == 'cacg' else (False, 'tight', 'graded')):
                                if D == 3 and len(lead) == 3 and not thorough:
                                    continue
                                yield (fam, lead, D, N, salk, opt, short, seed)
    subs.append(Sub('single_distributions', ('family', 'lead', 'D', 'N', 'sal', 'opt', 'short', 'seed'),
                    single_cases, run_single,
                    bound=dict(leading_shapes=len(shapes), sizes='1..3' + (' (1..5 for <=2 axes)' if thorough else ''))))

    def mix_cases():
        for model, optlist in (('cacgmm', ('eigenvalue', 'trace', False)), ('cwmm', ('default',)),
                               ('cbmm', ('default',)), ('gmm', ('full', 'diagonal', 'spherical', 'full+eps')),
                               ('vmfmm', ('default',))):
            for lead in shapes:
                if len(lead) == 3 and max(lead) == 3 and not thorough:
                    continue
                if model == 'cbmm' and (int(np.prod(lead)) > 4 or len(lead) > 2):
                    continue
                for K in (2, 3) + ((2.8,) if model == 'cwmm' else ()):
                    D = 3 if model != 'cbmm' else 2
                    if K == 2.8:
                        K, D = 2, 8           # cWMM with eight channels
                    N = K * (D + 2) + 2
                    for wca in ((-1,), -2, 'pos_last'):
                        for salk in ('none', 'graded', 'bool'):
                            if salk == 'bool' and (model not in ('gmm', 'vmfmm', 'cwmm') or wca != (-1,) or K == 3):
                                continue
                            for opt in optlist:
                                for its in (1, 3) + ((12,) if opt == 'full+eps' else ()):
                                    if wca == 'pos_last' and (salk != 'none' or K == 3 or opt not in optlist[:1]):
                                        continue
                                    if opt == 'full+eps' and (its != 12 or wca != (-1,) or salk != 'none'):
                                        continue
                                    for short in (('plain', 'short', 'extreme') if model == 'cacgmm'
                                                  else ('plain', 'extreme')):
                                        if not thorough and (K == 3 and (salk != 'none' or its == 1)):
                                            continue
                                        if not thorough and wca == -2 and salk != 'none':
                                            continue
                                        if short != 'plain' and (int(np.prod(lead)) == 1 or
                                                                 (model == 'cbmm' and short == 'extreme')):
                                            continue
                                        yield (model, lead, K, D, N, wca, salk, opt, its, short, seed)
                                    if model == 'cacgmm' and salk == 'none' and wca == (-1,) and \
                                            int(np.prod(lead)) > 1 and its == 3:
                                        for its_ in (3, 6):
                                            yield (model, lead, K, D + 1, 40 * K, wca, salk, opt, its_, 'point', seed)
    subs.append(Sub('mixture_trainers',
                    ('model', 'lead', 'K', 'D', 'N', 'wca', 'sal', 'opt', 'its', 'short', 'seed'),
                    mix_cases, run_mixture))

    def ss_cases():
        for model in ('cacgmm', 'cwmm', 'gmm', 'vmfmm', 'cbmm'):
            for lead in shapes:
                if len(lead) == 3 and not thorough:
                    continue
                if model == 'cbmm' and int(np.prod(lead)) > 3:
                    continue
                for its in (1, 3):
                    D = 2 if model == 'cbmm' else 3
                    for pattern in itertools.product((True, False), repeat=len(lead)):
                        if not any(pattern):
                            continue
                        yield (model, lead, 2, D, 2 * (D + 2) + 2, its, pattern, False, seed)
                        if its == 1 and model != 'cbmm':
                            yield (model, lead, 2, D, 2 * (D + 2) + 2, its, pattern, True, seed)
    subs.append(Sub('singleton_start', ('model', 'lead', 'K', 'D', 'N', 'its', 'pattern', 'sal', 'seed'), ss_cases,
                    run_singleton_start))

    def hand_cases():
        for fam in HAND_FAMILIES:
            for lead in shapes:
                if int(np.prod(lead)) == 1 or (len(lead) == 3 and not thorough):
                    continue
                for D in (2, 3) if fam != 'bingham' else (2,):
                    for singular in (False, True) if fam.startswith('gauss') else (False,):
                        yield (fam, lead, D, 4, singular, seed)
    subs.append(Sub('hand_built_parameter_stacks', ('family', 'lead', 'D', 'N', 'singular', 'seed'), hand_cases,
                    run_hand, bound=dict(kappas={k: list(v) for k, v in KAPPAS.items()},
                                         scales=[1.0, 1e-4, 1e4, 1e-2, 37.0])))
    return subs
