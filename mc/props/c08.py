"""C08 — trainers return the documented weighted estimators; EM alternates them.

Estimators on all small saliency patterns; repetition law for all integer
saliencies; a reference EM is run next to the implementation: per step from the
implementation's own traced state (iteration hook) and end to end."""
import itertools

import numpy as np

from mc.core import Sub, ok, trivial, viol
from mc import alphabet as A
from mc import impl
from mc import scenarios as S
from mc import tol
from mc.refmodels import densities as RD
from mc.refmodels import em as EM
from mc.refmodels import mixtures as M

LEVEL = 'model_checking'
RULE = ('estimators: trainer x D x N x every assignment of {0,0.5,1,2} to N<=4 frames / graded x options x '
        'leading axes; repetition law: every s in {1..3}^N; alternation: reference EM next to the '
        'implementation, every traced step (state) compared, n<=8 (quick) iterations')
ASSUMPTIONS = ['reference estimators of DESIGN A.4 (loops), mpmath hyp1f1 for the Watson ratio',
               'Watson concentration is judged by the residual |rho(kappa) - lambda_max| <= 1e-6 (spline inverse)',
               'Bingham eigenvalues are judged by the gradient equation to 1e-6, not by expected values']

SAL_VALUES = (0.0, 0.5, 1.0, 2.0)


def saliency_patterns(N):
    """none, graded, and (N<=4) every assignment of SAL_VALUES with positive sum."""
    yield ('none',)
    yield ('graded',)
    yield ('tiny',)
    yield ('huge',)
    if N <= 4:
        for t in itertools.product(range(len(SAL_VALUES)), repeat=N):
            if any(t):
                yield ('grid',) + t


def make_sal(pattern, lead, N):
    if pattern[0] == 'none':
        return None
    if pattern[0] == 'graded':
        return A.graded_saliency(lead, N)
    if pattern[0] == 'tiny':
        return A.graded_saliency(lead, N) * 1e-13
    if pattern[0] == 'huge':
        return A.graded_saliency(lead, N) * 1e13
    s = np.array([SAL_VALUES[i] for i in pattern[1:]])
    out = np.empty(tuple(lead) + (N,))
    for j, idx in enumerate(np.ndindex(*lead)):
        out[idx] = np.roll(s, j)
    return out


def _call(f):
    try:
        return f(), None
    except Exception as e:  # noqa
        return None, e


# ---------------------------------------------------------------- single trainers


def run_trainer(key):
    d = impl.dist()
    fam, D, N, lead, pat, opt, seed = (key[k] for k in ('family', 'D', 'N', 'lead', 'sal', 'opt', 'seed'))
    lead = tuple(lead)
    if isinstance(opt, list):
        opt = tuple(opt)
    cplx = fam in ('cgauss', 'watson', 'cacg', 'bingham')
    y = A.generic_data(seed, lead + (N, D), 'c08', fam, complex_=cplx)
    if key.get('data') == 'offset':
        # spread 1 around an offset of 1e5: E[y^2] - mean^2 would lose ten digits
        y = y + 1e5 * (1 + np.arange(D))
    if key.get('data', '').startswith('tight'):
        # frames concentrated around one direction (spread 1e-2 .. 1e-4): small scatter eigenvalues
        y = y[..., :1, :] + 10.0 ** -int(key['data'][5:]) * y
    if key.get('data') == 'many':
        # more observations than any internal block size (vectorised reference below)
        N = 70001
        y = A.rng(seed, 'many', fam, D, lead).standard_normal(lead + (N, D)) * (1 + np.arange(D)) + 0.5
        sal = make_sal(tuple(pat), lead, N)
        c = np.ones(lead + (N,)) if sal is None else sal
        got, e = _call(lambda: d.GaussianTrainer().fit(y, saliency=sal, covariance_type=opt))
        if e is not None:
            return viol(f'GaussianTrainer.fit raised {e!r} for N = {N}')
        w = c / c.sum(-1, keepdims=True)
        mean = np.einsum('...n,...nd->...d', w, y)
        dlt = y - mean[..., None, :]
        full = np.einsum('...n,...nd,...ne->...de', w, dlt, dlt)
        want = full if opt == 'full' else np.diagonal(full, axis1=-2, axis2=-1) if opt == 'diagonal' else \
            np.diagonal(full, axis1=-2, axis2=-1).mean(-1)
        bad = tol.mismatch(np.asarray(got.mean), mean, 1e-9, what=f'Gaussian mean (N = {N})') or \
            tol.mismatch(np.asarray(got.covariance), want, 1e-9, what=f'Gaussian covariance ({opt}, N = {N})')
        if bad:
            return viol(bad)
        return ok(outcome=tol.digest(want))
    if key.get('data') == 'planar':
        # frames on D-1 coordinate axes with unequal shares plus a spread of 3e-4: one scatter eigenvalue of about
        # 1e-7 next to moderate, distinct ones (the blurred-start M-step of a cBMM with D = K + 1)
        r = A.rng(seed, 'planar', fam, D, N, lead)
        share = np.array([0.55, 0.27, 0.18, 0.12, 0.08][:D - 1])
        axis_of = r.choice(D - 1, size=lead + (N,), p=share / share.sum())
        y = np.eye(D)[axis_of] * (1 + 0.1 * r.standard_normal(lead + (N, 1))) + 3e-4 * y
    if key.get('data') == 'zero_rows':
        # silent (all-zero) observations that still carry weight: they count in the denominator of the scatter
        y[..., ::3, :] = 0
    if key.get('data') == 'collinear':
        # exactly collinear frames (positive multiples of one vector per slice): r_bar = 1
        r = A.rng(seed, 'collinear', fam, D, N, lead)
        y = y[..., :1, :] * r.uniform(0.5, 3.0, size=lead + (N, 1))
    sal = make_sal(tuple(pat), lead, N)
    y.setflags(write=False)
    if sal is not None:
        sal.setflags(write=False)
    c = np.ones(lead + (N,)) if sal is None else sal
    z = M.unit_rows(y) if cplx else y
    if fam == 'gauss':
        got, e = _call(lambda: d.GaussianTrainer().fit(y, saliency=sal, covariance_type=opt))
        if e is not None:
            for idx in np.ndindex(*lead):
                _, cov = M.m_gaussian(y[idx], c[idx], 'full')
                w = np.linalg.eigvalsh(cov)
                if w.min() <= 1e-10 * max(w.max(), 1e-300) or (opt != 'full' and np.diag(cov).min() <= 1e-12):
                    from mc.core import raised_ok
                    return raised_ok(e)   # the weighted scatter is singular: no Gaussian exists
            return viol(f'GaussianTrainer.fit raised {e!r}')
        for idx in np.ndindex(*lead):
            mean, cov = M.m_gaussian(y[idx], c[idx], opt)
            bad = tol.mismatch(np.asarray(got.mean)[idx], mean, what='Gaussian mean') or \
                tol.mismatch(np.asarray(got.covariance)[idx], cov, what=f'Gaussian covariance ({opt})')
            if bad:
                return viol(bad)
        return ok(outcome=tol.digest(np.asarray(got.covariance)))
    if fam == 'cgauss':
        got, e = _call(lambda: d.ComplexCircularSymmetricGaussianTrainer().fit(y, saliency=sal))
        if e is not None:
            return viol(f'ComplexCircularSymmetricGaussianTrainer.fit raised {e!r}')
        for idx in np.ndindex(*lead):
            bad = tol.mismatch(np.asarray(got.covariance)[idx], M.m_cgauss(y[idx], c[idx]),
                               what='complex Gaussian covariance')
            if bad:
                return viol(bad)
        return ok(outcome=tol.digest(np.asarray(got.covariance)))
    if fam == 'watson':
        kmax = float(opt)
        got, e = _call(lambda: d.ComplexWatsonTrainer(max_concentration=kmax).fit(y, saliency=sal))
        if e is not None:
            return viol(f'ComplexWatsonTrainer.fit raised {e!r}')
        gam = c[..., None, :]
        ref = EM.m_step('cwmm', y, gam, None, None, (-1,), watson_kmax=kmax)
        imp = dict(pi=ref['pi'], watson=dict(mode=np.asarray(got.mode)[..., None, :],
                                             kappa=np.asarray(got.concentration)[..., None]))
        bad = EM.compare('cwmm', imp, ref, tol.TIGHT, D, what='ComplexWatsonTrainer')
        if bad:
            return viol(bad)
        return ok(outcome=tol.digest(np.asarray(got.concentration)))
    if fam == 'vmf':
        kmin, kmax = opt
        got, e = _call(lambda: d.VonMisesFisherTrainer().fit(y, saliency=sal, min_concentration=kmin,
                                                             max_concentration=kmax))
        if e is not None:
            return viol(f'VonMisesFisherTrainer.fit raised {e!r}')
        ref = EM.m_step('vmfmm', y, c[..., None, :], None, None, (-1,), kmin=kmin, kmax=kmax)
        imp = dict(pi=ref['pi'], vmf=dict(mean=np.asarray(got.mean)[..., None, :],
                                          kappa=np.asarray(got.concentration)[..., None]))
        bad = EM.compare('vmfmm', imp, ref, tol.TIGHT, D, what='VonMisesFisherTrainer')
        if bad:
            return viol(bad)
        return ok(outcome=tol.digest(np.asarray(got.concentration)))
    if fam == 'bingham':
        got, e = _call(lambda: d.ComplexBinghamTrainer().fit(y, saliency=sal))
        if e is not None:
            for idx in np.ndindex(*lead):
                w_ = np.linalg.eigvalsh(M.scatter(z[idx], c[idx]))
                if w_.min() <= 1e-10 * w_.max():
                    from mc.core import raised_ok
                    return raised_ok(e)     # rank-deficient weighted scatter: no Bingham estimate exists
            return viol(f'ComplexBinghamTrainer.fit raised {e!r}')
        ref = EM.m_step('cbmm', y, c[..., None, :], None, None, (-1,))
        imp = dict(pi=ref['pi'], bingham=dict(U=np.asarray(got.covariance_eigenvectors)[..., None, :, :],
                                              lam=np.asarray(got.covariance_eigenvalues)[..., None, :]))
        bad = EM.compare('cbmm', imp, ref, tol.TIGHT, D, check_bingham=bingham_gradient,
                         what='ComplexBinghamTrainer')
        if bad:
            return viol(bad)
        return ok(outcome=tol.digest(np.asarray(got.covariance_eigenvalues)))
    raise ValueError(fam)


def bingham_gradient(lam, scatter_eig, idx=None, tol_=1e-6):
    if np.min(np.abs(np.diff(np.sort(lam)))) < 1e-6 or np.min(np.abs(np.diff(np.sort(scatter_eig)))) < 2e-8:
        return None   # (scatter) eigenvalues closer than the documented 1e-8 are spread by the implementation
    if np.min(scatter_eig) < 1e-12 or np.abs(lam).max() > 1e13:
        return None   # numerically rank-deficient scatter: the estimate does not exist / the equation is 0 = 0
    g = RD.bingham_grad_log_norm(lam)
    # every moment equation relative to its own scatter eigenvalue (an absolute criterion says nothing about the
    # small eigenvalues, i.e. about the large concentrations)
    # nearly tied eigenvalues: the double-precision normaliser (divided differences) cancels; its amplification
    # factor (sum of |terms| / |sum|) bounds the digits that any float64 implementation loses
    amp = max(1.0, RD.bingham_amplification(lam) / 100.0)
    if np.abs(g - scatter_eig).max() > tol_ * amp or np.abs((g - scatter_eig) / scatter_eig).max() > 1e-5 * amp:
        return (f'Bingham eigenvalues {lam} do not solve grad log c(lambda) = scatter eigenvalues '
                f'{scatter_eig} (gradient {g})')
    return None


def run_cacg_trainer(key):
    d = impl.dist()
    D, N, lead, its, norm, herm, seed = (key[k] for k in ('D', 'N', 'lead', 'its', 'norm', 'herm', 'seed'))
    lead = tuple(lead)
    y = A.generic_data(seed, lead + (N, D), 'c08cacg')
    floor = 1e-10
    if key.get('variant') == 'rankdef':
        y[..., D - 1] = 0              # frames inside a (D-1)-dimensional subspace: the floor is active
    elif key.get('variant') == 'bigfloor':
        floor = 0.05
    y.setflags(write=False)
    got, e = _call(lambda: d.ComplexAngularCentralGaussianTrainer().fit(
        y, hermitize=herm, covariance_norm=norm, iterations=its, eigenvalue_floor=floor))
    if e is not None:
        return viol(f'ComplexAngularCentralGaussianTrainer.fit raised {e!r}')
    U, lam = np.asarray(got.covariance_eigenvectors), np.asarray(got.covariance_eigenvalues)
    if U.shape != lead + (D, D) or lam.shape != lead + (D,):
        return viol(f'parameter shapes {U.shape}, {lam.shape}')
    z = M.unit_rows(y)
    for idx in np.ndindex(*lead):
        if its <= 5:
            q = np.ones(N)
            for _ in range(its):
                B, l, u = M.m_cacg(z[idx], np.ones(N), q, herm, norm, floor)
                _, q = RD.cacg_logpdf(y[idx], u, l)
            bad = tol.mismatch(M.canon_psd(U[idx], lam[idx]), B, tol.ITER if its > 1 else tol.TIGHT,
                               what=f'cACG estimate after {its} Tyler steps') or \
                tol.mismatch(np.log(np.sort(lam[idx])), np.log(np.sort(l)), tol.ITER * 10,
                             what=f'cACG log-eigenvalues after {its} Tyler steps ({key.get("variant")})')
            if bad:
                return viol(bad)
        else:
            # fixed point: one more reference step from the returned estimate reproduces it
            _, q = RD.cacg_logpdf(y[idx], U[idx], lam[idx])
            B, l, u = M.m_cacg(z[idx], np.ones(N), q, herm, norm, floor)
            bad = tol.mismatch(M.canon_psd(U[idx], lam[idx]), B, 1e-6,
                               what=f'cACG fixed point after {its} iterations')
            if bad:
                return viol(bad)
    return ok(outcome=tol.digest(lam))


# ---------------------------------------------------------------- mixture weights


def run_weight(key):
    from pb_bss.distribution.mixture_model_utils import estimate_mixture_weight
    lead, K, N, wca, pat, seed = (key[k] for k in ('lead', 'K', 'N', 'wca', 'sal', 'seed'))
    lead = tuple(lead)
    wca_arg = tuple(wca) if isinstance(wca, (list, tuple)) else wca
    if key['as_list'] and not isinstance(wca_arg, int):
        wca_arg = list(wca_arg)
    aff = A.soft_affiliation(seed, lead, K, N, 'c08w')
    sal = make_sal(tuple(pat), lead, N)
    aff.setflags(write=False)
    got, e = _call(lambda: estimate_mixture_weight(aff, sal, wca_arg))
    if e is not None:
        return viol(f'estimate_mixture_weight raised {e!r}')
    got = np.asarray(got)
    want_shape = M.expected_weight_shape('cacgmm', wca if isinstance(wca, int) else tuple(wca), aff.shape)
    if got.shape != want_shape:
        return viol(f'weight shape {got.shape} != documented {want_shape}')
    ref = M.ref_weights(aff, sal, wca if isinstance(wca, int) else tuple(wca))
    try:
        full = np.broadcast_to(got, aff.shape)
    except ValueError:
        return viol(f'weight shape {got.shape} does not broadcast to {aff.shape}')
    bad = tol.mismatch(full, ref, what='mixture weight')
    if bad:
        return viol(bad, got, ref[..., :1] if ref.ndim else ref)
    return ok(outcome=tol.digest(ref))


# ---------------------------------------------------------------- repetition law


def _scene(model, seed, F, K, N, D, tag):
    cplx = model in M.COMPLEX_OBS
    lead = (F,) if (model in M.INTEGRATION or F) else ()
    y = A.generic_data(seed, lead + (N, D), 'scene', tag, model, complex_=cplx)
    if model in M.INTEGRATION:
        emb = A.generic_data(seed, lead + (N, 3), 'scene-emb', tag, model, complex_=False)
        # vMF-cACGMM: the embeddings are deliberately NOT unit vectors (lengths 0.3 ... 3): projecting them onto
        # the sphere is the trainer's job, in the M-step as well as in the E-step
        if model == 'vmfcacgmm':
            emb = emb / np.linalg.norm(emb, axis=-1, keepdims=True) * (0.3 + 2.7 * A.rng(seed, 'emb-len', tag).uniform(
                size=lead + (N, 1)))
        return (y, emb), lead
    return y, lead


def run_repetition(key):
    model, svec, its, seed = key['model'], tuple(key['s']), key['its'], key['seed']
    N = len(svec)
    K = 2
    D = 1 if model == 'gmm' else 2
    F = 2 if model in M.INTEGRATION else 0
    data, lead = _scene(model, seed, F, K, N, D, 'rep')
    init = A.soft_affiliation(seed, lead, K, N, 'rep', model)
    s = np.broadcast_to(np.array(svec, float), lead + (N,)).copy()
    rep = np.repeat(np.arange(N), svec)

    def take(a, axis):
        return np.take(a, rep, axis=axis)
    if model in M.INTEGRATION:
        data_r = (take(data[0], -2), take(data[1], -2))
    else:
        data_r = take(data, -2)
    init_r = take(init, -1)
    opts = {}
    if model == 'gmm':
        opts['covariance_type'] = 'full'
    try:
        m1 = M.fit(model, data, init, its, saliency=s, **opts)
        r1 = None
    except Exception as e:  # noqa
        m1, r1 = None, e
    try:
        m2 = M.fit(model, data_r, init_r, its, **opts)
        r2 = None
    except Exception as e:  # noqa
        m2, r2 = None, e
    if r1 is not None or r2 is not None:
        if (r1 is not None and r2 is not None) or model == 'cbmm':
            return trivial('fit raises on this tiny data set: ' + type(r1 or r2).__name__)
        return viol(f'{model}: saliency fit raised {r1!r} / repeated-data fit raised {r2!r}')
    f1, f2 = M.fields(model, m1), M.fields(model, m2)
    if model == 'cbmm' and max(np.abs(m_.complex_bingham.covariance_eigenvalues).max() for m_ in (m1, m2)) > 1e6:
        return trivial('Bingham concentration > 1e6: numerically rank-deficient class scatter')
    rt = 1e-5 if model == 'cbmm' else tol.ITER if model == 'cwmm' else tol.TIGHT * 100
    for name in f1:
        a, b = f1[name], f2[name]
        if name == 'weight':
            sh = lead + (K, N)
            a = M.weight_full(model, m1, sh)[..., :1]
            b = M.weight_full(model, m2, lead + (K, len(rep)))[..., :1]
        if name == 'watson_mode' or name == 'vmf_mean':
            rt_ = rt * 100
        else:
            rt_ = rt
        bad = tol.mismatch(a, b, rt_, what=f'{model} {name}: fit(saliency=s) vs fit(repeat(y, s))')
        if bad:
            return viol(bad)
    return ok(outcome=tol.digest(f1[sorted(f1)[0]]))


# ---------------------------------------------------------------- EM alternation


def _ref_aligner(kind, F):
    if kind == 'none':
        return None
    if kind == 'greedy':
        return ('greedy', 'cos')
    w = max(1, F // 2)
    return ('dhtv', F, 0, w, max(1, w // 2), 3, 2, 'cos', 'greedy')


def run_alternation(key):
    from pb_bss import _verif
    model, K, wca, salk, alk, n, opt, seed = (key[k] for k in
                                              ('model', 'K', 'wca', 'sal', 'aligner', 'n', 'opt', 'seed'))
    wca = tuple(wca) if isinstance(wca, (list, tuple)) else wca
    F, D = 3, 3
    N = K * (D + 2) + 2
    integ = model in M.INTEGRATION
    if alk == 'builtin':
        # integration models: clustered spatial and embedding streams (posteriors saturate), the start is the
        # blurred partition with the classes permuted in some frequencies
        y, labels = A.clustered_data(seed, (F,), K, N // K, D, 'alt-bi', model, noise=0.2)
        N = y.shape[-2]
        r_len = A.rng(seed, 'alt-bi-len', model, K)
        emb, _ = A.clustered_data(seed, (F,), K, N // K, 3, 'alt-bi-emb', model, complex_=False, noise=0.2,
                                  protos=A.unit_vectors(seed, K, 3, 'alt-bi-p', model, complex_=False, max_cos=0.8))
        if model == 'vmfcacgmm':
            emb = emb / np.linalg.norm(emb, axis=-1, keepdims=True) * (0.3 + 2.7 * r_len.uniform(size=(F, N, 1)))
        data, lead = (y, emb), (F,)
        init = A.partition_affiliation(labels, K, blur=0.3, lead=lead)
        perms = [list(range(K)), list(np.roll(np.arange(K), 1)), list(np.arange(K)[::-1])]
        for f in range(F):
            init[f] = init[f][perms[f % 3]]
    elif alk != 'none':
        # classes with distinct activity, start = blurred partition permuted per frequency
        # (a 3-cycle in one bin for K >= 3), so that the aligner really re-orders
        data, labels = A.clustered_data(seed, (F,), K, N // K, D, 'alt-al', model, noise=0.25)
        lead = (F,)
        N = data.shape[-2]
        init = A.partition_affiliation(labels, K, blur=0.3, lead=lead)
        perms = [list(range(K)), list(np.roll(np.arange(K), 1)), list(np.arange(K)[::-1])]
        for f in range(F):
            init[f] = init[f][perms[f % 3]]
    elif opt == 'saturated':
        # tight, well separated classes: after two iterations every posterior sits exactly on a clip value
        data, labels = A.clustered_data(seed, (F,), K, N // K, D, 'alt-sat', model, noise=0.01)
        lead = (F,)
        N = data.shape[-2]
        init = A.partition_affiliation(labels, K, blur=0.2, lead=lead)
    else:
        data, lead = _scene(model, seed, F, K, N, D, ('alt', K))
        init = A.soft_affiliation(seed, lead, K, N, 'alt', model, K)
    sal = S.make_saliency(lead, N, salk)
    opts = dict(weight_constant_axis=wca)
    ref_opts = dict(wca=wca, saliency=sal)
    if sal is not None:
        opts['saliency'] = sal
    eps = 0.0
    tr_kw = {}
    if model in ('cacgmm', 'gcacgmm', 'vmfcacgmm'):
        eps = 1e-10
        if opt == 'trace':
            opts['covariance_norm'] = ref_opts['norm'] = 'trace'
        elif opt == 'nonorm':
            opts['covariance_norm'] = ref_opts['norm'] = False
        elif opt == 'nohermit':
            opts['hermitize'] = ref_opts['hermitize'] = False
        elif opt == 'eps':
            opts['affiliation_eps'] = eps = 1e-3
        elif opt == 'eps5':
            opts['affiliation_eps'] = eps = 0.05
        elif opt in ('trace_floor', 'nonorm_floor'):
            opts['covariance_norm'] = ref_opts['norm'] = 'trace' if opt == 'trace_floor' else False
            opts['eigenvalue_floor'] = ref_opts['floor'] = 0.05
    if model == 'cbmm' and opt == 'eps':
        opts['affiliation_eps'] = eps = 1e-3
    if model == 'gmm':
        ct = {'default': 'full'}.get(opt, opt)
        opts['covariance_type'] = ref_opts['cov_type'] = ct
    if model == 'gcacgmm':
        ct = opt if opt in ('full', 'diagonal', 'spherical') else 'spherical'
        opts['covariance_type'] = ref_opts['cov_type'] = ct
    if model == 'vmfmm' and opt == 'bounds':
        opts['min_concentration'], opts['max_concentration'] = 2.0, 6.0
        ref_opts['kmin'], ref_opts['kmax'] = 2.0, 6.0
    if model == 'cwmm' and opt == 'bounds':
        tr_kw['max_concentration'] = 8.0
        ref_opts['watson_kmax'] = 8.0
    if integ:
        sw = (0.5, 2.0) if opt == 'streams' else (1.0, 1.0)
        opts['spatial_weight'], opts['spectral_weight'] = sw
        ref_opts['sw'] = sw
    aligner = None
    if alk == 'builtin':
        opts['inline_permutation_alignment'] = True
    elif alk != 'none':
        opts['inline_permutation_aligner'] = S.make_aligner(alk, F)
        aligner = _ref_aligner(alk, F)
    trace = []
    _verif.clear()
    _verif.register(lambda **kw: trace.append(
        (kw['iteration'], kw['model'], np.array(kw['affiliation']),
         None if kw['quadratic_form'] is None else np.array(kw['quadratic_form']))))
    try:
        final = M.fit(model, data, init, n, trainer_kw=tr_kw, **opts)
    except Exception as e:  # noqa
        if 'ill-defined empirical covariance' in str(e):
            return trivial('Gaussian covariance guard active (class collapsed)')
        return viol(f'{model}: fit raised on regular data: {e!r}')
    finally:
        _verif.clear()
    if len(trace) != n:
        return viol(f'{n} iterations requested, hook saw {len(trace)} M-steps')
    if final is not trace[-1][1]:
        return viol('the returned model is not the model of the last M-step')
    shape = lead + (K, N)
    states = transitions = 0
    rt = tol.TIGHT * 100
    cb = bingham_gradient if model == 'cbmm' else None
    ambiguous = False
    for i, (it, m_i, g_i, q_i) in enumerate(trace):
        if it != i:
            return viol(f'iteration counter {it} at position {i}')
        if i == 0:
            bad = tol.mismatch(g_i, np.broadcast_to(init, shape), tol.TIGHT, what='first M-step affiliation')
            if bad:
                return viol(bad)
            if q_i is not None and not np.array_equal(q_i, np.ones(shape)):
                return viol('first M-step of a cACG model must use quadratic forms of one')
        try:
            ref_i = EM.m_step(model, data, g_i, q_i, **ref_opts)
        except Exception as e:  # noqa
            return trivial(f'reference M-step not evaluable: {type(e).__name__}')
        try:
            imp_i = EM.from_impl(model, m_i, shape)
        except Exception as e:  # noqa
            return viol(f'iteration {i}: model parameters unusable: {e!r}')
        bad = EM.compare(model, imp_i, ref_i, rt, D, check_bingham=cb,
                         what=f'{model} M-step of iteration {i}', weight_atol=0.0)
        if bad:
            return viol(bad)
        states += 1
        if i + 1 < n:
            rt_e = rt
            if 'cacg' in imp_i:
                # z^H B^-1 z amplifies rounding by cond(B) = 1 / min eigenvalue (max is normalised)
                lam = np.asarray(imp_i['cacg']['lam'])
                rt_e = rt + 1e-14 * float((lam.max(-1) / lam.min(-1)).max())
            if alk == 'builtin':
                g_ref, q_ref, amb = EM.e_step_builtin(model, imp_i, data, eps=eps)
                ambiguous = ambiguous or amb
            else:
                g_ref, q_ref, _ = EM.e_step(model, imp_i, data, eps=eps)
            if aligner is not None:
                g_ref, q_ref, amb = EM.apply_aligner(g_ref, q_ref, aligner)
                ambiguous = ambiguous or amb
            if not ambiguous:
                bad = tol.mismatch(trace[i + 1][2], g_ref, rt_e, what=f'{model} E-step after iteration {i}')
                if bad:
                    return viol(bad)
                if q_ref is not None:
                    bad = tol.mismatch(trace[i + 1][3], q_ref, rt_e,
                                       what=f'{model} quadratic form handed to M-step {i + 1}')
                    if bad:
                        return viol(bad)
            transitions += 1
    # a fit started from a returned MODEL (initialization=<CACGMM instance>) continues the alternation exactly:
    # its first M-step uses the posterior and the quadratic forms of that model (and the inline aligner)
    if model == 'cacgmm' and n >= 3 and not ambiguous:
        for i0 in (0, 1):
            try:
                cont = M.fit(model, data, trace[i0][1], 1, trainer_kw=tr_kw, **opts)
            except Exception as e:  # noqa
                return viol(f'cacgmm: fit(initialization=model_{i0}, iterations=1) raised {e!r}')
            fa, fb = M.fields(model, cont), M.fields(model, trace[i0 + 1][1])
            for name in fa:
                bad = tol.mismatch(fa[name], fb[name], tol.ITER,
                                   what=f'cacgmm {name}: fit(initialization=model_{i0}, iterations=1) vs traced '
                                        f'model {i0 + 1}')
                if bad:
                    return viol(bad)
            transitions += 1
    # the hook is faithful: fit(iterations=i) returns the traced model i-1
    for i in sorted({1, 2, n // 2, n}):
        if i < 1 or i > n:
            continue
        try:
            m_i = M.fit(model, data, init, i, trainer_kw=tr_kw, **opts)
        except Exception as e:  # noqa
            return viol(f'{model}: fit(iterations={i}) raised {e!r}')
        fa, fb = M.fields(model, m_i), M.fields(model, trace[i - 1][1])
        for name in fa:
            bad = tol.mismatch(fa[name], fb[name], 1e-5 if model == 'cbmm' else tol.TIGHT,
                               what=f'{model} {name}: fit(iterations={i}) vs traced model {i - 1}')
            if bad:
                return viol(bad)
        transitions += 1
    # end to end: n-fold reference composition (constructive reference M-steps only)
    if model not in ('cbmm',) and not ambiguous:
        g, q = np.broadcast_to(init, shape).astype(float), (np.ones(shape) if 'cacg' in imp_i else None)
        ref = None
        amb_all = False
        for i in range(n):
            if ref is not None:
                if alk == 'builtin':
                    g, q, amb = EM.e_step_builtin(model, ref, data, eps=eps)
                    amb_all = amb_all or amb
                else:
                    g, q, _ = EM.e_step(model, ref, data, eps=eps)
                if aligner is not None:
                    g, q, amb = EM.apply_aligner(g, q, aligner)
                    amb_all = amb_all or amb
            ref = EM.m_step(model, data, g, q, **ref_opts)
        if not amb_all:
            bad = EM.compare(model, EM.from_impl(model, final, shape), ref,
                             1e-4 if model == 'cwmm' else tol.ITER * 10, D,
                             what=f'{model} fit(iterations={n}) vs {n}-fold reference EM',
                             weight_atol=0.0)
            if bad:
                return viol(bad)
        transitions += n
    flags = ['ambiguous'] if ambiguous else ['compared']
    if alk != 'none' and n > 1:
        e_aff = np.asarray(M.predict(model, trace[0][1], data))
        if not np.allclose(np.clip(e_aff, eps, 1 - eps) if eps else e_aff, trace[1][2], atol=1e-6):
            flags.append('aligner_reordered')
    return ok(outcome=tol.digest(trace[-1][2]), states=states, transitions=transitions,
              evals=n + 4, traces=1, flags=flags)


# ---------------------------------------------------------------- sub-checks


def subchecks(tier, seed):
    thorough = tier == 'thorough'
    subs = []

    def trainer_cases():
        for fam, opts in (('gauss', ('full', 'diagonal', 'spherical')), ('cgauss', ('full',)),
                          ('watson', (500.0, 5.0, 50.0)), ('vmf', ((1e-10, 500.0), (2.0, 5.0))),
                          ('bingham', ('default',))):
            for D in ((2, 3) if fam == 'bingham' else (2, 3, 5)):
                for N in (D + 1, 2 * D, 12):
                    for lead in ((), (2,)):
                        for pat in saliency_patterns(N):
                            if fam == 'bingham' and (pat[0] == 'grid' or N == D + 1) and not thorough:
                                continue
                            if pat[0] == 'grid' and lead and not thorough and fam != 'gauss':
                                continue
                            for opt in opts:
                                yield (fam, D, N, lead, pat, opt, 'generic', seed)
        for D in (1, 2, 3, 5):
            for N in (D + 2, 12, 40):
                for lead in ((), (2,)):
                    for pat in (('none',), ('graded',), ('tiny',)):
                        for opt in ('full', 'diagonal', 'spherical'):
                            yield ('gauss', D, N, lead, pat, opt, 'offset', seed)
        for D in (2, 3, 4):
            for N in (2 * D, 12):
                for pat in (('none',), ('graded',)):
                    for kind in ('tight2', 'tight3', 'tight4'):
                        yield ('bingham', D, N, (), pat, 'default', kind, seed)
        for D in (3, 4):
            for N in (24, 60):
                for pat in (('none',), ('graded',)):
                    yield ('bingham', D, N, (), pat, 'default', 'planar', seed)
        for opt in ('full', 'diagonal', 'spherical'):
            for pat in (('none',), ('graded',)):
                yield ('gauss', 2, 70001, (), pat, opt, 'many', seed)
        for D in (2, 3, 5):
            for lead in ((), (2,)):
                for pat in (('none',), ('graded',)):
                    yield ('watson', D, 12, lead, pat, 500.0, 'zero_rows', seed)
        for fam, opts in (('watson', (500.0, 5.0)), ('vmf', ((1e-10, 500.0), (2.0, 5.0)))):
            for D in (2, 3, 5, 8):
                for N in (2, 3, 7, 12, 31):
                    for lead in ((), (2,), (3, 2)):
                        for pat in (('none',), ('graded',)):
                            for opt in opts:
                                yield (fam, D, N, lead, pat, opt, 'collinear', seed)
    subs.append(Sub('single_trainers', ('family', 'D', 'N', 'lead', 'sal', 'opt', 'data', 'seed'),
                    trainer_cases, run_trainer,
                    bound=dict(D=[2, 3, 5], N=['D+1', '2D', 12],
                               saliency='none, graded, every assignment of {0,.5,1,2} to N<=4 frames')))

    def cacg_cases():
        for D in (2, 3, 5):
            for N in sorted({D + 1, 2 * D, 12, 4 * D + 4}):
                for lead in ((), (2,), (2, 2)):
                    for its in (1, 2, 5, 500):
                        for norm in ('eigenvalue', 'trace', False):
                            for herm in (True, False):
                                # the fixed-point clause needs comfortably more frames than channels
                                # (Tyler's iteration converges slowly for N close to D)
                                if (its == 500) != (N == 4 * D + 4):
                                    continue
                                yield (D, N, lead, its, norm, herm, 'regular', seed)
                                if its in (1, 2) and N == 12:
                                    yield (D, N, lead, its, norm, herm, 'rankdef', seed)
                                    yield (D, N, lead, its, norm, herm, 'bigfloor', seed)
    subs.append(Sub('cacg_trainer', ('D', 'N', 'lead', 'its', 'norm', 'herm', 'variant', 'seed'), cacg_cases,
                    run_cacg_trainer))

    def weight_cases():
        for lead in ((), (2,), (2, 3)):
            nd = len(lead) + 2
            for K in (2, 3):
                for N in (3, 4):
                    for wca in (-1, -2, -3, (-1,), (-2,), (-3,), (-3, -1), (-2, -1), (-3, -2), (-3, -2, -1),
                                (-4,), (-4, -3, -1)):
                        axes = (wca,) if isinstance(wca, int) else wca
                        if min(axes) < -nd:
                            continue
                        for pat in saliency_patterns(N):
                            if pat[0] == 'grid' and (N == 4 or K == 3) and not thorough:
                                continue
                            for as_list in (False, True):
                                if as_list and (isinstance(wca, int) or pat[0] == 'grid'):
                                    continue
                                yield (lead, K, N, wca, pat, as_list, seed)
    subs.append(Sub('mixture_weight', ('lead', 'K', 'N', 'wca', 'sal', 'as_list', 'seed'),
                    weight_cases, run_weight))

    def rep_cases():
        for model in M.MODELS:
            for N in (3, 4):
                top = 3 if not thorough else 4
                for s in itertools.product(range(1, top + 1), repeat=N):
                    if model == 'cbmm' and not thorough and (N == 4 or max(s) > 2):
                        continue
                    for its in (1, 3):
                        yield (model, s, its, seed)
        if thorough:
            for model in M.MODELS:
                if model == 'cbmm':
                    continue
                for s in itertools.product(range(1, 5), repeat=5):
                    yield (model, s, 3, seed)
    subs.append(Sub('repetition_law', ('model', 's', 'its', 'seed'), rep_cases, run_repetition,
                    bound=dict(s='{1..3}^N, N in {3,4}' + ('; {1..4}^N N<=5' if thorough else ''))))

    n = 12 if thorough else 8

    def alt_cases():
        for model in M.MODELS:
            integ = model in M.INTEGRATION
            wcas = ((-1,), (-3,), (-3, -1), (-3, -2, -1)) if integ else \
                ((-1,), -2, (-3,), (-3, -1), (-2,))
            optmap = {'cacgmm': ('default', 'trace', 'nonorm', 'nohermit', 'eps', 'trace_floor', 'nonorm_floor', 'saturated'),
                      'cwmm': ('default', 'bounds'), 'cbmm': ('default', 'eps'),
                      'gmm': ('full', 'diagonal', 'spherical'), 'vmfmm': ('default', 'bounds'),
                      'gcacgmm': ('default', 'full', 'diagonal', 'streams', 'trace'),
                      'vmfcacgmm': ('default', 'streams', 'nohermit')}[model]
            for K in (2, 3, 4):
                for wca in wcas:
                    for salk in ('none', 'graded'):
                        for opt in optmap:
                            for alk in ('none', 'greedy', 'dhtv'):
                                if K == 4 and (alk == 'none' or model == 'cbmm'):
                                    continue
                                if alk != 'none' and (model not in ('cacgmm', 'cwmm', 'cbmm')
                                                      or wca not in ((-3,), (-3, -1))):
                                    continue
                                if model == 'cbmm' and not thorough and \
                                        (K == 3 or (opt != 'default' and salk != 'none')):
                                    continue
                                if not thorough and K == 3 and opt != optmap[0] and salk != 'none':
                                    continue
                                yield (model, K, wca, salk, alk, 4 if model == 'cbmm' else n, opt, seed)
            if integ:
                # built-in spatial/spectral alignment of the integration models, with a clip that is active
                for K in (2, 3):
                    for wca in ((-1,), (-3,)):
                        for opt in ('default', 'eps5', 'streams'):
                            yield (model, K, wca, 'none', 'builtin', n, opt, seed)
    subs.append(Sub('em_alternation', ('model', 'K', 'wca', 'sal', 'aligner', 'n', 'opt', 'seed'),
                    alt_cases, run_alternation,
                    bound=dict(iterations=n, note='state = traced (affiliation, quadratic form, model) of one '
                               'iteration; transition = one reference E/M step compared with the traced one'),
                    require_flags=('compared', 'aligner_reordered')))
    return subs
