"""C01 — affiliations are valid distributions and equal the model's Bayes posterior.

Deviation-bounded exploration of the configuration space of the seven mixture
models (every point with <= d non-default options), full product of the core axes,
all Gaussian-integer data sets for D=2, N<=3; every E-step result seen through the
iteration hook; initializers."""
import itertools

import numpy as np

from mc.core import Sub, ok, trivial, viol, raised_ok
from mc import alphabet as A
from mc import scenarios as S
from mc import tol
from mc.space import Axis, Space
from mc.refmodels import mixtures as M

LEVEL = 'exploration'
RULE = ('every configuration with <= d non-default options (d=2 quick, 3 thorough) of 7 models x '
        'K x D x leading axes x weight tying x saliency x mask x eps x norm x covariance type x '
        'stream weights x aligner x dtype x data kind x start x iterations; full product of '
        'model x tying x data kind x start; all data sets over the Gaussian-integer alphabet for '
        'D=2, N<=3; initializers for all K<=6, N<=12')
ASSUMPTIONS = ['Bayes oracle uses the public component log_pdf evaluated one class and one leading '
               'index at a time and the stored weights placed by the reference tying rule',
               'an exception is accepted only on degenerate data kinds / K=1 (explicit exception allowed)']

WCAS = ((-1,), -2, (-2,), (-3,), (-3, -1), (-3, -2, -1))


def space():
    axes = [
        Axis('model', M.MODELS),
        Axis('K', (2, 1, 3, 4, 6)),
        Axis('D', (3, 2, 8)),
        Axis('lead', ((3,), (), (2, 3), (1,))),
        Axis('N', ('auto', 3, 2, 'big')),
        Axis('wca', WCAS),
        Axis('saliency', ('none', 'ones', 'graded', 'one_zero', 'tiny')),
        Axis('mask', ('none', 'one_off', 'all_off_frame')),
        Axis('eps', ('default', 0.0, 1e-3)),
        Axis('norm', ('eigenvalue', 'trace', False)),
        Axis('hermitize', (True, False)),
        Axis('covtype', ('default', 'full', 'diagonal', 'spherical')),
        Axis('streamw', ((1.0, 1.0), (0.5, 2.0), (0.0, 1.0), (1.0, 0.0))),
        Axis('aligner', ('none', 'greedy', 'dhtv', 'builtin')),
        Axis('single', (False, True)),
        Axis('data', ('generic',) + S.DEGENERATE_KINDS + ('near_unit', 'emb_offset')),
        Axis('start', ('soft', 'onehot', 'soft_singleton', 'nc0', 'nc1', 'nc2')),
        Axis('iterations', (2, 1, 5)),
        Axis('layout', A.LAYOUTS),      # memory layout of the observation (and embedding) tensors
    ]

    def valid(p):
        m = p['model']
        integ = m in M.INTEGRATION
        lead = tuple(p['lead'])
        if integ and len(lead) != 1:
            return False
        if p['data'] == 'emb_offset' and m != 'gcacgmm':
            return False       # only the Gaussian embedding stream is defined for embeddings far from the origin
        nd = len(lead) + 2
        wca = S.resolve_wca(m, p['wca'], p['aligner'], lead)
        if not S.wca_valid(m, wca, nd):
            return False
        if integ and (isinstance(wca, int) or wca == (-2,)):
            return False   # documented tying options of the integration models only
        if p['start'] == 'soft_singleton' and (integ or p['mask'] != 'none'):
            return False   # integration models / masks do not document broadcast starts
        if p['mask'] != 'none' and m != 'cacgmm':
            return False
        if p['eps'] != 'default' and m not in ('cacgmm', 'cbmm', 'gcacgmm', 'vmfcacgmm'):   # CWMM asserts eps == 0
            return False
        if (p['norm'] != 'eigenvalue' or p['hermitize'] is not True) and \
                m not in ('cacgmm', 'gcacgmm', 'vmfcacgmm'):
            return False
        if p['covtype'] != 'default' and m not in ('gmm', 'gcacgmm'):
            return False
        if p['streamw'] != (1.0, 1.0) and not integ:
            return False
        al = p['aligner']
        if al == 'builtin' and not integ:
            return False
        if al in ('greedy', 'dhtv'):
            if m not in ('cacgmm', 'cwmm', 'cbmm') or len(lead) != 1 or lead[0] % 2 == 0:
                return False
            if wca not in ((-3,), (-3, -1), -3):
                return False
        if m == 'cbmm' and (p['D'] > 3 or p['K'] > 3 or p['N'] == 'big' or len(lead) > 1):
            return False   # cBMM: least-squares root finder, kept small (D<=6 supported)
        if p['start'] == 'soft_singleton' and not lead:
            return False
        if p['mask'] != 'none' and p['start'].startswith('nc'):
            return True
        return True
    return Space(axes, valid)


SPACE = space()


# ---------------------------------------------------------------- invariants


def undefined_columns(model, m, shape, mask):
    """observations at which Bayes' rule is 0/0: every source the mask leaves active has a stored weight of
    exactly zero there (per-frame weights of a one-hot start); no posterior is defined for them."""
    try:
        w = np.asarray(M.weight_full(model, m, shape), dtype=float)
    except Exception:  # noqa
        return None
    if mask is not None:
        w = w * mask
    return w.sum(-2) == 0


def check_distribution(aff, shape, what, K, eps=0.0, mask=None, exact_zero=True,
                       skip_frames=(), undefined=None):
    aff = np.asarray(aff)
    if aff.shape != tuple(shape):
        return f'{what}: shape {aff.shape} != documented {tuple(shape)}'
    if aff.dtype.kind != 'f':
        return f'{what}: dtype {aff.dtype}'
    if not np.isfinite(aff).all():
        return f'{what}: {int((~np.isfinite(aff)).sum())} non-finite values'
    single = aff.dtype == np.float32
    slack = (5e-6 if single else 1e-12)
    if (aff < 0).any() or (aff > 1 + slack).any():
        return f'{what}: values outside [0, 1] (min {aff.min()!r}, max {aff.max()!r})'
    s = aff.sum(-2)
    if undefined is not None and undefined.any():
        s = np.where(undefined, 1.0, s)         # Bayes' rule is 0/0 there: range and mask zeros only
    if len(skip_frames):
        s = np.delete(s, list(skip_frames), axis=-1)
        if mask is not None:
            mask = np.delete(mask, list(skip_frames), axis=-1)
            aff = np.delete(aff, list(skip_frames), axis=-1)
    lim = slack * K + K * eps
    if mask is None:
        if s.size and np.abs(s - 1).max() > lim:
            return f'{what}: does not sum to one over classes (max dev {np.abs(s - 1).max():.3e})'
    else:
        active = mask.any(-2)
        if np.abs(s - 1)[active].max(initial=0) > lim:
            return f'{what}: does not sum to one where sources are active'
        dead = np.broadcast_to(~mask, aff.shape)
        if exact_zero:
            if (aff[dead] != 0).any():
                return f'{what}: non-zero affiliation for a source the mask declares inactive'
        elif (aff[dead] > eps * (1 + 1e-9)).any():
            return f'{what}: affiliation above eps for a source the mask declares inactive'
    return None


# ---------------------------------------------------------------- configuration cases


def build(p, seed):
    model = p['model']
    integ = model in M.INTEGRATION
    lead = tuple(p['lead'])
    K, D, N = p['K'], p['D'], p['N']
    N = {'auto': K * (D + 2) + 2, 'big': 4 * K * D}.get(N, N)
    single = p['single']
    kind = p['data']
    tag = (model, K, D, lead, N)
    cplx = model in M.COMPLEX_OBS
    y = S.make_observation(seed, lead, N, D, kind, cplx, tag)
    N = y.shape[-2]
    if single and kind in ('scale_hi', 'scale_lo', 'mixed_scale'):
        # single precision: squares must stay representable, dynamic range 1e-12..1e12
        a = np.abs(y)
        with np.errstate(all='ignore'):
            e = np.where(a > 0, np.log10(np.where(a > 0, a, 1.0)), 0.0)
        y = y * 10.0 ** (np.clip(e, -12, 12) - e)
    y = y.astype(S._dtype(model, single))
    if not np.isfinite(y).all():
        raise AssertionError('harness: non-finite observation built')
    emb = None
    if integ:
        E = 4
        emb = A.generic_data(seed, lead + (N, E), 'emb', tag, complex_=False)
        if kind == 'zero_frame':
            emb[..., 0, :] = 0
        if kind == 'emb_offset':
            emb = emb + 1e7       # embeddings on a large common offset (the Gaussian stream is translation equivariant)
        if model == 'vmfcacgmm':
            nrm = np.linalg.norm(emb, axis=-1, keepdims=True)
            emb = emb / np.where(nrm == 0, 1, nrm)
        if single:
            emb = emb.astype(np.float32)
    if p.get('layout', 'C') != 'C':
        y = A.relayout(y, p['layout'])
        if emb is not None:
            emb = A.relayout(emb, p['layout'])
    wca = S.resolve_wca(model, p['wca'], p['aligner'], lead)
    opts = dict(weight_constant_axis=wca)
    sal = S.make_saliency(lead, N, p['saliency'])
    if sal is not None:
        opts['saliency'] = sal
    mask = S.make_mask(lead, K, N, p['mask'])
    if mask is not None:
        opts['source_activity_mask'] = mask
    if p['eps'] != 'default':
        opts['affiliation_eps'] = p['eps']
    if model in ('cacgmm', 'gcacgmm', 'vmfcacgmm'):
        opts['covariance_norm'] = p['norm']
        opts['hermitize'] = p['hermitize']
    if p['covtype'] != 'default':
        opts['covariance_type'] = p['covtype']
    if integ:
        opts['spatial_weight'], opts['spectral_weight'] = p['streamw']
        if p['aligner'] == 'builtin':
            opts['inline_permutation_alignment'] = True
    elif p['aligner'] in ('greedy', 'dhtv'):
        opts['inline_permutation_aligner'] = S.make_aligner(p['aligner'], lead[0])
    start = p['start']
    if start.startswith('nc'):
        init = K
        rng_seed = int(start[2:]) + 17 * seed
    else:
        init = S.make_start(seed, lead, K, N, start, tag)
        rng_seed = None
    eps_used = {'cacgmm': 1e-10, 'gcacgmm': 1e-10, 'vmfcacgmm': 1e-10}.get(model, 0.0) \
        if p['eps'] == 'default' else p['eps']
    data = (y, emb) if integ else y
    skip = ()
    if sal is not None and p['saliency'] == 'one_zero' and \
            -1 not in (M.norm_axes(wca, len(lead) + 2) if not isinstance(wca, int) else (wca,)):
        skip = (N // 2,)    # per-frame weights and zero saliency: no class has mass there
    axes_ = M.norm_axes(wca, len(lead) + 2) if not isinstance(wca, int) else (wca,)
    if mask is not None and -1 not in axes_:
        # per-frame weights and a frame in which the mask switches every source off: no class has mass there
        off = np.where(~mask.any(-2).reshape(-1, N).all(0))[0].tolist()
        skip = tuple(sorted(set(skip) | set(off)))
    empty = False
    if not isinstance(init, int):
        mass = init if sal is None else init * sal[..., None, :]
        if mask is not None:
            mass = mass * mask
        empty = bool((np.broadcast_to(mass, lead + (K, N)).sum(-1) <= 0).any())
    else:
        if sal is not None:
            empty = bool((sal.sum(-1) <= 0).any())     # no saliency mass at all: every class is empty
        if mask is not None:
            empty = empty or bool((mask.sum(-1) <= 0).any())
    return dict(model=model, data=data, init=init, opts=opts, K=K, N=N, lead=lead, mask=mask,
                eps=eps_used, rng_seed=rng_seed, integ=integ, single=single, skip=skip,
                empty_class=empty,
                degenerate=(kind not in S.REGULAR_KINDS_) or K == 1 or N < K * (D + 2) or bool(skip))


def run_config(key):
    from pb_bss import _verif
    p = dict(key)
    seed = p.pop('seed')
    p.pop('frames_lt_channels', None)
    p['lead'] = tuple(p['lead'])
    p['streamw'] = tuple(p['streamw'])
    if isinstance(p['wca'], list):
        p['wca'] = tuple(p['wca'])
    c = build(p, seed)
    model, K, N, lead = c['model'], c['K'], c['N'], c['lead']
    aff_shape = lead + (K, N)
    if c['empty_class']:
        return trivial('start has a class without mass (outside the precondition)')
    if c['rng_seed'] is not None:
        np.random.seed(c['rng_seed'])
    for a in (c['data'] if c['integ'] else (c['data'],)):
        a.setflags(write=False)
    trace = []
    _verif.clear()
    _verif.register(lambda **kw: trace.append((kw['iteration'], np.array(kw['affiliation']), kw['model'])))
    try:
        m = M.fit(model, c['data'], c['init'], p['iterations'], **c['opts'])
        post = M.predict(model, m, c['data']) if c['mask'] is None else \
            m.predict(c['data'], source_activity_mask=c['mask'])
    except Exception as e:  # noqa
        if c['degenerate'] or 'ill-defined empirical covariance' in str(e):
            return raised_ok(e)     # explicit exception (incl. the Gaussian covariance guard when EM collapses)
        return viol(f'{model}: fit/predict raised on regular input: {e!r}')
    finally:
        _verif.clear()
    if len(trace) != p['iterations']:
        return viol(f'hook saw {len(trace)} iterations, expected {p["iterations"]}')
    # (1) every affiliation handed to an M-step after an E-step
    # with an inline aligner the rows handed to the M-step are re-ordered on purpose: the class-indexed
    # mask then no longer refers to the same rows, only the distribution property is judged there
    aligned = p['aligner'] in ('greedy', 'dhtv')
    onehot = p['start'] == 'onehot'     # the only start from which exactly-zero weights are legitimate
    for (it, aff, _), (_, _, m_prev) in zip(trace[1:], trace[:-1]):
        mask_t = None if aligned else c['mask']
        skip_t = c['skip']
        if aligned and c['mask'] is not None:
            skip_t = tuple(sorted(set(skip_t) | set(np.where(~c['mask'].any(-2).reshape(-1, N).all(0))[0].tolist())))
        bad = check_distribution(aff, aff_shape, f'E-step result of iteration {it}', K,
                                 eps=c['eps'], mask=mask_t, exact_zero=(c['eps'] == 0),
                                 skip_frames=skip_t,
                                 undefined=undefined_columns(model, m_prev, aff_shape, c['mask']) if onehot else None)
        if bad:
            return viol(f'{model}: {bad}')
    bad = check_distribution(post, aff_shape, 'predict', K, eps=0.0, mask=c['mask'],
                             skip_frames=c['skip'],
                             undefined=undefined_columns(model, m, aff_shape, c['mask']) if onehot else None)
    if bad:
        return viol(f'{model}: {bad}', post)
    if model == 'cacgmm':
        # the second documented way to obtain the posterior: together with the quadratic forms
        try:
            kw_q = {} if c['mask'] is None else dict(source_activity_mask=c['mask'])
            post_q, qf = m.predict(c['data'], return_quadratic_form=True, **kw_q)
        except Exception as e:  # noqa
            return viol(f'cacgmm: predict(return_quadratic_form=True) raised {e!r}')
        if not np.array_equal(np.asarray(post_q), np.asarray(post)):
            return viol('cacgmm: predict(return_quadratic_form=True) returns another posterior than predict '
                        f'(max difference {np.abs(np.asarray(post_q) - np.asarray(post)).max():.3e})')
        if np.asarray(qf).shape != aff_shape or not np.isfinite(qf).all() or (np.asarray(qf) < 0).any():
            return viol('cacgmm: quadratic forms returned by predict are not finite non-negative (..., K, N)')
    # (2) Bayes oracle
    try:
        logp = M.component_logpdf(model, m, c['data'])
        pi = M.weight_full(model, m, aff_shape)
    except Exception as e:  # noqa
        if c['degenerate']:
            return trivial('component log_pdf not evaluable on degenerate fit: ' + type(e).__name__,
                           outcome=tol.digest(post))
        return viol(f'{model}: component log_pdf / stored weight unusable: {e!r}')
    if not np.isfinite(logp).all() or not np.isfinite(pi).all() or (pi < 0).any():
        if c['degenerate']:
            return trivial('non-finite component log-density on degenerate data',
                           outcome=tol.digest(post))
        return viol(f'{model}: non-finite component log_pdf or weights on regular data')
    if c['degenerate'] and (pi.sum(-2) <= 0).any():
        return trivial('class without mass', outcome=tol.digest(post))
    if model == 'cbmm' and np.abs(np.asarray(m.complex_bingham.covariance_eigenvalues)).max() > 1e6:
        return trivial('Bingham concentration > 1e6: the density is numerically ill defined',
                       outcome=tol.digest(post))
    want = M.bayes(logp, pi, mask=c['mask'])
    rt = 2e-4 if c['single'] else tol.TIGHT
    if hasattr(m, 'cacg'):
        # z^H B^-1 z amplifies rounding by cond(B) = max / min eigenvalue (1e10 when the eigenvalue floor is
        # active on rank-deficient data); predict and the public log_pdf sum in different orders
        lam = np.asarray(m.cacg.covariance_eigenvalues, dtype=float)
        rt = rt + (1e-6 if c['single'] else 1e-14) * float((lam.max(-1) / lam.min(-1)).max())
    badm = tol.mismatch(post, want, rt, what=f'{model} posterior vs Bayes rule')
    if badm:
        return viol(badm, post, want)
    if not c['integ'] and c['mask'] is None and c['rng_seed'] is None and not c['degenerate']:
        # fit_predict returns the same posterior as predict of the fitted model
        try:
            fp = M.trainer(model).fit_predict(c['data'], initialization=c['init'],
                                              iterations=p['iterations'], **c['opts'])
        except Exception as e:  # noqa
            return viol(f'{model}: fit_predict raised {e!r}')
        badm = tol.mismatch(fp, post, rt, what=f'{model} fit_predict vs fit+predict')
        if badm:
            return viol(badm)
    return ok(outcome=tol.digest(want), evals=1 + len(trace))


LOGPDF_ALPHABET = (-1e5, -800.0, -1.0, 0.0, 3.0, 800.0, 1e5)
WEIGHT_ROWS = {1: ((1.0,), (0.25,), (0.0,)),
               2: ((0.5, 0.5), (0.9, 0.1), (1.0, 0.0), (1e-10, 1 - 1e-10)),
               3: ((1 / 3, 1 / 3, 1 / 3), (0.7, 0.2, 0.1), (0.5, 0.5, 0.0), (0.0, 1.0, 0.0), (1e-10, 0.5, 0.5 - 1e-10))}


def run_routine(key):
    """the shared posterior routine on one observation: every vector of log-densities over a small alphabet
    that spans the exp() range, every activity pattern, weights incl. exact zeros, both clip settings."""
    from pb_bss.distribution.mixture_model_utils import log_pdf_to_affiliation
    K, L, maskbits, w, eps = key['K'], key['logpdf'], key['mask'], key['weight'], key['eps']
    logp = np.array(L, dtype=float).reshape(K, 1)
    pi = np.array(w, dtype=float).reshape(K, 1)
    mask = None if maskbits is None else np.array(maskbits, dtype=bool).reshape(K, 1)
    snap = logp.copy()
    try:
        got = log_pdf_to_affiliation(pi, logp, source_activity_mask=mask, affiliation_eps=eps)
    except Exception as e:  # noqa
        return viol(f'log_pdf_to_affiliation raised {e!r}')
    if not np.array_equal(logp, snap):
        return viol('log_pdf argument modified')
    want = M.bayes(logp, pi, mask=mask, eps=eps)
    defined = M.bayes(logp, pi, mask=mask).sum() > 0     # otherwise 0/0: no active class with weight > 0
    bad = check_distribution(got, (K, 1), 'log_pdf_to_affiliation', K, eps=eps, mask=mask,
                             exact_zero=(eps == 0),
                             undefined=None if defined else np.array([True]))
    if bad:
        return viol(bad, got, want)
    badm = tol.mismatch(got, want, tol.TIGHT, what='posterior routine vs Bayes rule')
    if badm:
        return viol(badm, got, want)
    return ok(outcome=tol.digest(want))


def run_builtin_alignment_routine(key):
    """the posterior routine of the integration models with the built-in spatial/spectral alignment, on F bins
    with one observation each: in every bin the result is the Bayes posterior of spatial[order] + spectral for an
    order that maximises the bin's own criterion sum_k q_k log p_k (every maximiser is accepted at a tie)."""
    from pb_bss.distribution.mixture_model_utils import \
        log_pdf_to_affiliation_for_integration_models_with_inline_pa as routine
    K, F, w = key['K'], key['F'], key['weight']
    spat = np.array(key['spatial'], dtype=float).reshape(F, K, 1)
    spec = np.array(key['spectral'], dtype=float).reshape(F, K, 1)
    pi = np.array(w, dtype=float).reshape(K, 1)
    try:
        got = routine(pi, spat.copy(), spec.copy())
    except Exception as e:  # noqa
        return viol(f'built-in alignment routine raised {e!r}')
    got = np.asarray(got)
    if got.shape != (F, K, 1):
        return viol(f'built-in alignment routine: shape {got.shape} != {(F, K, 1)}')
    orders = list(itertools.permutations(range(K)))
    tie = False
    for f in range(F):
        crit = []
        for o in orders:
            lp = spat[f, list(o)] + spec[f]
            q = M.bayes(lp, np.ones((K, 1)))
            crit.append(float(np.sum(q * lp)))
        best = max(crit)
        cands = [o for o, c in zip(orders, crit) if c >= best - 1e-9 * (1 + abs(best))]
        tie = tie or len(cands) > 1
        wants = [M.bayes(spat[f, list(o)] + spec[f], pi) for o in cands]
        if not any(np.abs(got[f] - w_).max() <= tol.TIGHT for w_ in wants):
            return viol(f'built-in alignment, bin {f} of {F}: posterior {got[f].ravel().tolist()} is not the Bayes '
                        f'posterior for any criterion-maximising order {cands} (expected '
                        f'{[w_.ravel().tolist() for w_ in wants]})', got)
    return ok(outcome=tol.digest(got), flags=['tie'] if tie else ['unique'])


def run_mask_fit_predict(key):
    """fit_predict with a source-activity mask: returned posterior honours the mask."""
    K, N, lead, seed = key['K'], key['N'], tuple(key['lead']), key['seed']
    y = A.generic_data(seed, lead + (N, 3), 'mfp', K)
    mask = S.make_mask(lead, K, N, key['mask'])
    init = S.make_start(seed, lead, K, N, 'soft', 'mfp')
    try:
        post = M.trainer('cacgmm').fit_predict(y, initialization=init, iterations=key['it'],
                                               source_activity_mask=mask)
    except Exception as e:  # noqa
        return viol(f'fit_predict raised {e!r}')
    bad = check_distribution(post, lead + (K, N), 'fit_predict with source_activity_mask', K, mask=mask)
    if bad:
        return viol(bad, post)
    return ok(outcome=tol.digest(post))


# ---------------------------------------------------------------- GI(2) exhaustive data


def gi_sets(complex_, N):
    vecs = A.gi_vectors(2, complex_)
    return list(itertools.combinations_with_replacement(range(len(vecs)), N))


def run_gi(key):
    model, idxs, start = key['model'], key['frames'], key['start']
    cplx = model in M.COMPLEX_OBS
    vecs = A.gi_vectors(2, cplx)
    y = np.stack([vecs[i] for i in idxs])
    N = len(idxs)
    K = 2
    if start == 'uniform':
        inits = [np.full((K, N), 0.5)]
    else:
        inits = []
        for lab in itertools.product(range(K), repeat=N):
            if len(set(lab)) == K:
                a = np.zeros((K, N))
                a[list(lab), range(N)] = 1
                inits.append(a)
    outs = []
    n_exc = 0
    for init in inits:
        try:
            m = M.fit(model, y, init, 2)
            post = M.predict(model, m, y)
        except Exception:  # noqa  degenerate data: explicit exception allowed
            n_exc += 1
            continue
        bad = check_distribution(post, (K, N), f'{model} predict', K)
        if bad:
            return viol(bad + f' (start {init.tolist()})', post)
        try:
            logp = M.component_logpdf(model, m, y)
            pi = M.weight_full(model, m, (K, N))
        except Exception:  # noqa
            continue
        if np.isfinite(logp).all() and np.isfinite(pi).all() and (pi.sum(-2) > 0).all():
            want = M.bayes(logp, pi)
            badm = tol.mismatch(post, want, tol.TIGHT, what=f'{model} posterior vs Bayes rule')
            if badm:
                return viol(badm + f' (start {init.tolist()})', post, want)
            outs.append(tol.digest(want))
    if not outs:
        return trivial('all starts raised or gave non-finite densities', evals=len(inits),
                       flags=['raised'] if n_exc else [])
    return ok(outcome=str(outs), evals=len(inits))


# ---------------------------------------------------------------- initializers


def run_flag(key):
    from pb_bss.initializer import deterministic
    K, N, j, lead = key['K'], key['N'], key['j'], tuple(key['lead'])
    minimum = 0.0 if j < 0 else 1.0 / (K * 2 ** j) if j > 0 else 0.9 / K
    Y = np.ones(lead + (N, 3))
    try:
        init = deterministic.flag(Y, K, permutation_free=True, minimum=minimum)
    except Exception as e:  # noqa
        if K > N:
            return raised_ok(e)
        return viol(f'flag raised {e!r}')
    bad = check_distribution(np.array(init, dtype=float), lead + (K, N), 'flag', K)
    if bad:
        return viol(bad, init)
    init = np.asarray(init)
    for idx in np.ndindex(*lead):
        a = init[idx]
        for n in range(N):
            col = a[:, n]
            big = int(np.argmax(col))
            others = np.delete(col, big)
            if np.abs(others - minimum).max(initial=0) > 1e-15 + 4e-16 * K:
                return viol(f'non-assigned classes do not get the minimum {minimum}', col.tolist())
            if abs(col[big] - (1 - (K - 1) * minimum)) > 4e-16 * K + 1e-15:
                return viol('assigned class does not get the remainder', col.tolist())
            if minimum == 0 and sorted(col.tolist()) != [0.0] * (K - 1) + [1.0]:
                return viol('not one-hot', col.tolist())
        if not np.array_equal(a, init[(0,) * len(lead)]):
            return viol('leading axes are not broadcast copies')
        labels = a.argmax(0)
        if (np.diff(labels) < 0).any():
            return viol('segments not contiguous in time', labels.tolist())
        if N >= K and len(set(labels.tolist())) != K:
            return viol('a class is assigned no frame', labels.tolist())
    return ok(outcome=f'{K},{N},{minimum}')


def run_iid(key):
    from pb_bss.initializer import iid
    name, K, N, lead, pf, s = key['name'], key['K'], key['N'], tuple(key['lead']), key['pf'], key['rs']
    Y = np.ones(lead + (N, 2))
    np.random.seed(s)
    try:
        if name == 'dirichlet':
            init = iid.dirichlet(Y, K, permutation_free=pf, alpha=key['alpha'])
        else:
            init = getattr(iid, name)(Y, K, permutation_free=pf)
    except Exception as e:  # noqa
        return viol(f'{name} raised {e!r}')
    bad = check_distribution(np.array(init, float), lead + (K, N), name, K)
    if bad:
        return viol(bad, init)
    if name == 'one_hot':
        v = np.asarray(init)
        if not np.isin(v, (0.0, 1.0)).all():
            return viol('one_hot initializer is not binary')
    if pf and lead:
        v = np.asarray(init)
        if not all(np.array_equal(v[idx], v[(0,) * len(lead)]) for idx in np.ndindex(*lead)):
            return viol('permutation_free start differs across leading axes')
    return ok(outcome=tol.digest(np.asarray(init, float)))


def run_deflation(key):
    from pb_bss.initializer import deflation
    F, T, K, D, kind, seed = key['F'], key['T'], key['K'], key['D'], key['kind'], key['seed']
    Y = A.generic_data(seed, (F, T, D), 'defl', K)
    if kind == 'zero_frames':
        Y[:, ::4, :] = 0
    elif kind == 'zero_bins':
        Y[::7] = 0
    Y.setflags(write=False)
    try:
        post = deflation.deflationSeed(Y, K, permutation_free=key['pf'])
    except Exception as e:  # noqa
        return viol(f'deflationSeed raised {e!r}')
    post = np.asarray(post)
    # documented layout (K, F, T): class axis first
    aff = np.moveaxis(post, 0, -2)
    bad = check_distribution(aff, (F, K, T), 'deflationSeed', K)
    if bad:
        return viol(bad)
    # the documented options: caller-supplied saliencies, neighbourhood size, clip
    sal_ = np.linalg.norm(Y, axis=-1) ** 2 + 0.1
    for kw in (dict(saliencies=sal_), dict(neighbors=2), dict(neighbors=9, eps=1e-3), dict(saliencies=sal_, eps=1e-2)):
        try:
            post2 = np.asarray(deflation.deflationSeed(Y, K, permutation_free=key['pf'], **kw))
        except Exception as e:  # noqa
            return viol(f'deflationSeed({sorted(kw)}) raised {e!r}')
        bad = check_distribution(np.moveaxis(post2, 0, -2), (F, K, T), f'deflationSeed({sorted(kw)})', K,
                                 eps=kw.get('eps', 0.0))
        if bad:
            return viol(bad)
    return ok(outcome=tol.digest(post))


# ---------------------------------------------------------------- sub-checks


def subchecks(tier, seed):
    thorough = tier == 'thorough'
    subs = []
    names = SPACE.names + ['seed']
    d = int(__import__('os').environ.get('VERIF_C01_D', '4' if thorough else '2'))

    def few(p):
        # derived key field (for the known-findings matcher): fewer frames than channels
        return bool(p['data'] in ('n_lt_d', 'n1') or (isinstance(p['N'], int) and p['N'] < p['D']))

    def config_cases():
        seen = set()
        for p in SPACE.deviations(d, core=('model',)):
            t = SPACE.tup(p) + (few(p), seed)
            if t not in seen:
                seen.add(t)
                yield t
        for p in SPACE.full(('model', 'wca', 'data', 'start')):
            t = SPACE.tup(p) + (few(p), seed)
            if t not in seen:
                seen.add(t)
                yield t
    names = SPACE.names + ['frames_lt_channels', 'seed']
    subs.append(Sub('configurations', names, config_cases, run_config,
                    bound=dict(deviations=d, core_full_product=['model', 'wca', 'data', 'start'],
                               axes={a.name: [repr(v) for v in a.values] for a in SPACE.axes}),
                    min_nontrivial=500))

    def mfp_cases():
        for K in (2, 3):
            for N in (4, 6):
                for lead in ((), (2,)):
                    for mk in ('one_off', 'all_off_frame'):
                        for it in (1, 3):
                            yield (K, N, lead, mk, it, seed)
    def routine_cases():
        for K in (1, 2, 3):
            for L in itertools.product(LOGPDF_ALPHABET, repeat=K):
                for mb in [None] + list(itertools.product((True, False), repeat=K)):
                    for w in WEIGHT_ROWS[K]:
                        for eps in (0.0, 1e-10):
                            yield (K, L, mb, w, eps)
    subs.append(Sub('posterior_routine', ('K', 'logpdf', 'mask', 'weight', 'eps'), routine_cases, run_routine,
                    bound=dict(K=[1, 2, 3], logpdf_alphabet=list(LOGPDF_ALPHABET), masks='all activity patterns',
                               weights={str(k): [list(r) for r in v] for k, v in WEIGHT_ROWS.items()},
                               eps=[0.0, 1e-10]), exhaustive=True))
    def bar_cases():
        for K, F, alpha in ((2, 2, (-3.0, 0.0, 2.0)), (2, 3, (0.0, 2.0)), (3, 2, (0.0, 2.0))):
            tables = list(itertools.product(alpha, repeat=K * F))
            for sp in tables:
                for sc in tables:
                    for w in WEIGHT_ROWS[K][:2]:
                        yield (K, F, sp, sc, w)
    subs.append(Sub('builtin_alignment_routine', ('K', 'F', 'spatial', 'spectral', 'weight'), bar_cases,
                    run_builtin_alignment_routine, exhaustive=True,
                    bound=dict(shapes='(K,F) in {(2,2) over {-3,0,2}, (2,3) over {0,2}, (3,2) over {0,2}}',
                               tables='all spatial x all spectral log-density tables, one observation per bin')))
    subs.append(Sub('fit_predict_with_mask', ('K', 'N', 'lead', 'mask', 'it', 'seed'),
                    mfp_cases, run_mask_fit_predict))

    def gi_cases():
        for model in ('cacgmm', 'cwmm', 'gmm', 'vmfmm'):
            cplx = model in M.COMPLEX_OBS
            for N in (2, 3):
                for frames in gi_sets(cplx, N):
                    for start in ('onehot', 'uniform'):
                        yield (model, frames, start)
    subs.append(Sub('gaussian_integer_data', ('model', 'frames', 'start'), gi_cases, run_gi,
                    bound=dict(alphabet='{0,1,-1,i,1+i}^2 (complex) / {0,1,-1,2}^2 (real)',
                               N='2..3 frames up to frame order', K=2,
                               starts='all one-hot starts with both classes non-empty; uniform')))

    def flag_cases():
        for K in range(1, 7):
            for N in range(1, 13):
                for j in (-1, 0, 1, 2, 5):
                    if K == 1 and j >= 0:
                        continue
                    for lead in ((), (2,), (2, 3)):
                        yield (K, N, j, lead)
    subs.append(Sub('flag_initializer', ('K', 'N', 'j', 'lead'), flag_cases, run_flag))

    def iid_cases():
        for name in ('uniform_normalized', 'dirichlet_uniform', 'dirichlet', 'one_hot'):
            for K in (1, 2, 3, 6):
                for N in (1, 4, 12):
                    for lead in ((), (2,), (2, 3)):
                        for pf in (False, True):
                            for rs in (0, 1, 2):
                                for alpha in ((1, 0.3, 7.5) if name == 'dirichlet' else (1,)):
                                    yield (name, K, N, lead, pf, rs, alpha)
    subs.append(Sub('iid_initializers', ('name', 'K', 'N', 'lead', 'pf', 'rs', 'alpha'),
                    iid_cases, run_iid))

    def defl_cases():
        for T in (11, 16):
            for K in (2, 3, 4):
                for kind in ('generic', 'zero_frames', 'zero_bins'):
                    for pf in (True, False):
                        yield (257, T, K, 3, kind, pf, seed)
    subs.append(Sub('deflation_initializer', ('F', 'T', 'K', 'D', 'kind', 'pf', 'seed'),
                    defl_cases, run_deflation))
    return subs
