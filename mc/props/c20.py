"""C20 — calls are pure: inputs untouched, results reproducible and history-free.

(a) every public entry point of the listed modules is driven with read-only and with
    writeable column-major / strided arguments; bytes identical afterwards, second call
    bit-identical;
(b) explicit-state search over event histories on live (stateful) trainer objects with
    exact merging on the deep trainer state, every transition compared with a fresh
    trainer evaluated in a pristine process;
(c) all split edges fit(initialization=model_i, iterations=j), i+j <= n, of a cACGMM fit;
(d) (thorough) TLC model of the trainer dimension cache, every path replayed;
(e) source scan for module-level / class-level mutable state."""
import ast
import collections
import hashlib
import itertools
import json
import os
import pickle
import re
import subprocess
import sys
import tempfile

import numpy as np

from mc.core import Sub, ok, trivial, viol, HarnessError, REPO
from mc import alphabet as A
from mc import impl
from mc import tol
from mc.refmodels import mixtures as M

LEVEL = 'model_checking'
RULE = ('every public name of the mixture / beamforming / masking / alignment / metric modules x argument '
        'layouts {read-only C, writeable column-major or strided}; all event sequences on reused trainers '
        '(closure with exact state merging; unmerged to depth 3 quick / 5 thorough); all split edges i+j<=n of '
        'a cACGMM fit; TLC cache model (thorough); AST scan for shared mutable state')
ASSUMPTIONS = ['deep trainer state = pickle of its __dict__ (includes cached spline tables / nested trainers)',
               'fresh-trainer reference results are computed in a pristine python process per trainer configuration']

HERE = os.path.dirname(os.path.dirname(os.path.dirname(os.path.abspath(__file__))))


# ======================================================================= (a) purity

def _layout(x, layout):
    x = np.array(x)
    if layout == 'readonly' or x.ndim == 0:
        x = np.ascontiguousarray(x)
        x.setflags(write=False)
        return x
    if x.ndim >= 2:
        y = np.ascontiguousarray(x.swapaxes(-1, -2)).swapaxes(-1, -2)   # column-major trailing block
    else:
        big = np.zeros(x.shape[0] * 2, dtype=x.dtype)
        big[::2] = x
        y = big[::2]                                                    # strided 1-D view
    return y


class Table(dict):
    """driver table; .premade holds the model objects that were fitted while building it, .expect optional
    predicates on the result of an entry (name -> function returning an error message or None)."""
    premade = None

    def __init__(self, *a, **k):
        super().__init__(*a, **k)
        self.expect = {}


def entries(seed, premade=None):
    """name -> builder(layout) returning (callable taking the argument list, [array arguments])."""
    d = impl.dist()
    from pb_bss.extraction import beamformer as bf, beamformer_wrapper as bw, mask_module as mm
    import pb_bss.permutation_alignment as pa
    from pb_bss.evaluation import sxr_module as sx, module_si_sdr as ms
    from pb_bss.distribution import mixture_model_utils as mu
    from pb_bss.initializer import iid, deterministic
    r = A.rng(seed, 'c20purity')
    F, K, T, D, E = 3, 2, 12, 3, 3
    y = A.cnormal(r, (F, T, D))
    yr = r.standard_normal((F, T, D))
    emb = r.standard_normal((F, T, E))
    init = A.soft_affiliation(seed, (F,), K, T, 'c20')
    sal = A.graded_saliency((F,), T)
    msk = np.ones((F, K, T), bool)
    msk[:, 1, :3] = False
    Pxx = np.stack([A.hpd(seed, D, 10.0, 'c20x', f) + 2 * np.outer(y[f, 0], y[f, 0].conj()) for f in range(F)])
    Pnn = np.stack([A.hpd(seed, D, 10.0, 'c20n', f) for f in range(F)])
    atf = A.cnormal(r, (F, D))
    wv = A.cnormal(r, (F, D))
    X = A.cnormal(r, (F, D, T))
    tfmask = r.uniform(0.1, 1, size=(F, K, T))
    src = A.cnormal(r, (K, D, F, T))
    # alignment inputs: consistent activity patterns with one truly permuted frequency bin
    act = np.full((K, T), 0.05)
    act[np.arange(T) % K, np.arange(T)] = 1.0
    kft_ref = act[:, None, :] * (1 + 0.05 * r.uniform(size=(K, F, T)))
    kft = kft_ref.copy()
    kft[:, 1] = kft[::-1, 1]
    img = r.standard_normal((K, D, 64))
    nz = r.standard_normal((D, 64))
    oimg = r.standard_normal((K, K, 64))
    onz = r.standard_normal((K, 64))
    sig = r.standard_normal((2, 64))
    E_ = Table()

    def reg(name, fn, *arrays, seeded=False, state=None):
        E_[name] = (fn, arrays, seeded, state)

    # ---- mixture trainers and models
    def mk_fit(tr_factory, method, integ=False, extra=None, with_mask=False):
        def f(args):
            tr = tr_factory()
            kw = dict(extra or {})
            if with_mask:
                kw['source_activity_mask'] = args[-1]
                args = args[:-1]
            if integ:
                return getattr(tr, method)(args[0], args[1], initialization=args[2], iterations=2,
                                           saliency=args[3], **kw)
            return getattr(tr, method)(args[0], initialization=args[1], iterations=2, saliency=args[2], **kw)
        return f

    def model_out(m):
        return m
    for nm, fac, data in (('CACGMMTrainer', d.CACGMMTrainer, y), ('CWMMTrainer', d.CWMMTrainer, y),
                          ('CBMMTrainer', d.CBMMTrainer, y), ('GMMTrainer', d.GMMTrainer, yr),
                          ('VMFMMTrainer', d.VMFMMTrainer, yr)):
        for method in ('fit', 'fit_predict'):
            reg(f'{nm}.{method}', mk_fit(fac, method), data, init, sal)
        reg(f'{nm}.fit[num_classes]',
            (lambda fac: lambda args: fac().fit(args[0], num_classes=2, iterations=2))(fac), data, seeded=True)
    # non-default options together with a HARD (0/1) start: nothing may be written into the caller's start
    hard = np.zeros_like(init)
    hard[:, 0, ::2] = 1.0
    hard[:, 1, 1::2] = 1.0
    for nm, fac, data, extra in (
            ('CACGMMTrainer', d.CACGMMTrainer, y, dict(affiliation_eps=1e-3)),
            ('CBMMTrainer', d.CBMMTrainer, y, dict(affiliation_eps=1e-3)),
            ('CWMMTrainer', d.CWMMTrainer, y, dict(weight_constant_axis=(-3,))),
            ('GMMTrainer', d.GMMTrainer, yr, dict(covariance_type='diagonal')),
            ('VMFMMTrainer', d.VMFMMTrainer, yr, dict(min_concentration=2.0, max_concentration=50.0))):
        reg(f'{nm}.fit[hard start, options]', mk_fit(fac, 'fit', extra=extra), data, hard, sal)
        reg(f'{nm}.fit_predict[hard start, options]', mk_fit(fac, 'fit_predict', extra=extra), data, hard, sal)
    # a start that is not normalised over the classes (raw scores): it is the caller's array and stays as it is
    raw = init * (0.5 + 2.0 * A.rng(seed, 'c20raw').uniform(size=init.shape[:1] + (1,) + init.shape[2:]))
    for nm, fac, data in (('CACGMMTrainer', d.CACGMMTrainer, y), ('CWMMTrainer', d.CWMMTrainer, y),
                          ('GMMTrainer', d.GMMTrainer, yr), ('VMFMMTrainer', d.VMFMMTrainer, yr)):
        reg(f'{nm}.fit[start not normalised over the classes]', mk_fit(fac, 'fit'), data, raw, sal)
    for nm, fac in (('GCACGMMTrainer', d.GCACGMMTrainer), ('VMFCACGMMTrainer', d.VMFCACGMMTrainer)):
        reg(f'{nm}.fit[hard start, options]', mk_fit(fac, 'fit', integ=True, extra=dict(
            affiliation_eps=1e-3, weight_constant_axis=(-3,), spatial_weight=0.5)), y, emb, hard, sal)
    reg('CACGMMTrainer.fit[mask]', mk_fit(d.CACGMMTrainer, 'fit', with_mask=True), y, init, sal, msk)
    reg('CACGMMTrainer.fit_predict[mask]', mk_fit(d.CACGMMTrainer, 'fit_predict', with_mask=True), y, init, sal, msk)
    reg('CACGMMTrainer.fit[trace]', mk_fit(d.CACGMMTrainer, 'fit', extra=dict(covariance_norm='trace')), y, init, sal)
    reg('CACGMMTrainer.fit[aligner]', mk_fit(d.CACGMMTrainer, 'fit', extra=dict(
        weight_constant_axis=(-3,), inline_permutation_aligner=pa.GreedyPermutationAlignment('cos'))), y, init, sal)
    for nm, fac in (('GCACGMMTrainer', d.GCACGMMTrainer), ('VMFCACGMMTrainer', d.VMFCACGMMTrainer)):
        for method in ('fit', 'fit_predict'):
            reg(f'{nm}.{method}', mk_fit(fac, method, integ=True), y, emb, init, sal)
        reg(f'{nm}.fit[inline_pa]', mk_fit(fac, 'fit', integ=True, extra=dict(inline_permutation_alignment=True)),
            y, emb, init, sal)
    # fitted models that the predict entries evaluate: fitted here, or handed over (unpickled) when the table is
    # built in a pristine process that must not have run any trainer before the entry under test
    models = premade['models'] if premade else {
        'CACGMM': d.CACGMMTrainer().fit(y, initialization=init, iterations=2),
        'CWMM': d.CWMMTrainer().fit(y, initialization=init, iterations=2),
        'CBMM': d.CBMMTrainer().fit(y, initialization=init, iterations=2),
        'GMM': d.GMMTrainer().fit(yr, initialization=init, iterations=2),
        'VMFMM': d.VMFMMTrainer().fit(yr, initialization=init, iterations=2),
    }
    for nm, m in models.items():
        data = y if nm in ('CACGMM', 'CWMM', 'CBMM') else yr
        reg(f'{nm}.predict', (lambda m: lambda args: m.predict(args[0]))(m), data, state=m)
    # models with tied / unsorted eigenvalues, reused across calls
    Ub = np.stack([np.linalg.qr(A.cnormal(r, (D, D)))[0] for _ in range(F)])
    for tag, lam_b in (('tied_ascending', [-5.0, -5.0, 0.0]), ('descending', [0.0, -2.0, -5.0]),
                       ('tied_unsorted', [0.0, -3.0, -3.0])):
        bm = d.ComplexBingham(Ub, np.array([lam_b] * F))
        reg(f'ComplexBingham[{tag}].log_pdf', (lambda bm: lambda args: bm.log_pdf(args[0]))(bm), z if False else
            y / np.linalg.norm(y, axis=-1, keepdims=True), state=bm)
        cb = d.CBMM(weight=np.full((F, K, 1), 0.5),
                    complex_bingham=d.ComplexBingham(np.stack([Ub] * K, 1), np.array([[lam_b] * K] * F)))
        reg(f'CBMM[{tag}].predict', (lambda cb: lambda args: cb.predict(args[0]))(cb), y, state=cb)
    reg('CACGMM.predict[mask]', lambda args: models['CACGMM'].predict(args[0], source_activity_mask=args[1]), y, msk)
    reg('CACGMM.log_likelihood', lambda args: models['CACGMM'].log_likelihood(args[0]), y)
    gm = premade['gm'] if premade else d.GCACGMMTrainer().fit(y, emb, initialization=init, iterations=2)
    vm = premade['vm'] if premade else d.VMFCACGMMTrainer().fit(y, emb, initialization=init, iterations=2)
    reg('GCACGMM.predict', lambda args: gm.predict(args[0], args[1]), y, emb)
    reg('VMFCACGMM.predict', lambda args: vm.predict(args[0], args[1]), y, emb)
    # ---- single distributions
    cov = np.stack([A.hpd(seed, D, 10.0, 'c20cov', f) for f in range(F)])
    rcov = np.stack([A.hpd(seed, D, 10.0, 'c20rcov', f, complex_=False) for f in range(F)])
    for norm in ('eigenvalue', 'trace', False):
        reg(f'ComplexAngularCentralGaussian.from_covariance[{norm}]',
            (lambda norm: lambda args: d.ComplexAngularCentralGaussian.from_covariance(
                args[0], eigenvalue_floor=1e-10, covariance_norm=norm))(norm), cov)
    cacg = premade['cacg'] if premade else d.ComplexAngularCentralGaussian.from_covariance(cov.copy())
    E_.premade = dict(models=models, gm=gm, vm=vm, cacg=cacg)
    reg('ComplexAngularCentralGaussian.log_pdf', lambda args: cacg.log_pdf(args[0]), y)
    reg('ComplexAngularCentralGaussianTrainer.fit', lambda args: d.ComplexAngularCentralGaussianTrainer().fit(args[0], iterations=3), y)
    reg('ComplexWatsonTrainer.fit', lambda args: d.ComplexWatsonTrainer().fit(args[0], saliency=args[1]), y, sal)
    reg('ComplexBinghamTrainer.fit', lambda args: d.ComplexBinghamTrainer().fit(args[0], saliency=args[1]), y[:1], sal[:1])
    reg('VonMisesFisherTrainer.fit', lambda args: d.VonMisesFisherTrainer().fit(args[0], saliency=args[1]), yr, sal)
    for ct in ('full', 'diagonal', 'spherical'):
        reg(f'GaussianTrainer.fit[{ct}]', (lambda ct: lambda args: d.GaussianTrainer().fit(
            args[0], saliency=args[1], covariance_type=ct))(ct), yr, sal)
    reg('ComplexCircularSymmetricGaussianTrainer.fit', lambda args: d.ComplexCircularSymmetricGaussianTrainer().fit(args[0], saliency=args[1]), y, sal)
    reg('Gaussian.log_pdf', lambda args: d.Gaussian(mean=args[0], covariance=args[1]).log_pdf(args[2]), yr[:, 0], rcov, yr)
    reg('DiagonalGaussian.log_pdf', lambda args: d.DiagonalGaussian(mean=args[0], covariance=args[1]).log_pdf(args[2]),
        yr[:, 0], np.abs(yr[:, 1]) + 0.5, yr)
    reg('SphericalGaussian.log_pdf', lambda args: d.SphericalGaussian(mean=args[0], covariance=args[1]).log_pdf(args[2]),
        yr[:, 0], np.abs(yr[:, 1, 0]) + 0.5, yr)
    reg('ComplexCircularSymmetricGaussian.log_pdf', lambda args: d.ComplexCircularSymmetricGaussian(covariance=args[0]).log_pdf(args[1]), cov, y)
    z = y / np.linalg.norm(y, axis=-1, keepdims=True)
    reg('ComplexWatson.log_pdf', lambda args: d.ComplexWatson(mode=args[0], concentration=args[1]).log_pdf(args[2]),
        z[:, 0], np.array([1.0, 5.0, 20.0]), z)
    U = np.stack([np.linalg.eigh(c)[1] for c in cov])
    reg('ComplexBingham.log_pdf', lambda args: d.ComplexBingham(args[0], args[1]).log_pdf(args[2]),
        U, -np.arange(D, dtype=float)[None].repeat(F, 0), z)
    reg('VonMisesFisher.log_pdf', lambda args: d.VonMisesFisher(mean=args[0], concentration=args[1]).log_pdf(args[2]),
        yr[:, 0] / np.linalg.norm(yr[:, 0], axis=-1, keepdims=True), np.array([1.0, 5.0, 20.0]), yr)
    reg('normalize_observation', lambda args: d.normalize_observation(args[0]), y)
    reg('sample_cacgmm', lambda args: d.sample_cacgmm(8, args[0], args[1]), np.array([0.25, 0.75]), cov[:2], seeded=True)
    reg('estimate_mixture_weight', lambda args: mu.estimate_mixture_weight(args[0], args[1], (-1,)), init, sal)
    reg('log_pdf_to_affiliation', lambda args: mu.log_pdf_to_affiliation(args[0], args[1], args[2], 1e-3),
        np.full((K, 1), 0.5), np.log(init), msk)
    reg('log_pdf_to_affiliation_for_integration_models_with_inline_pa',
        lambda args: mu.log_pdf_to_affiliation_for_integration_models_with_inline_pa(args[0], args[1], args[2]),
        np.full((K, 1), 0.5), np.log(init), np.log(init[:, ::-1]))
    reg('apply_inline_permutation_alignment', lambda args: mu.apply_inline_permutation_alignment(
        args[0], quadratic_form=args[1], weight_constant_axis=(-3,), aligner=pa.GreedyPermutationAlignment('cos')),
        init, init + 1)
    # ---- beamforming
    reg('get_power_spectral_density_matrix', lambda args: bf.get_power_spectral_density_matrix(args[0], args[1]), X, tfmask)
    reg('get_power_spectral_density_matrix[bool]', lambda args: bf.get_power_spectral_density_matrix(args[0], args[1]), X, tfmask > 0.5)
    reg('get_power_spectral_density_matrix[no mask]', lambda args: bf.get_power_spectral_density_matrix(args[0]), X)
    reg('get_mvdr_vector_souden', lambda args: bf.get_mvdr_vector_souden(args[0], args[1]), Pxx, Pnn)
    reg('get_mvdr_vector', lambda args: bf.get_mvdr_vector(args[0], args[1]), atf, Pnn)
    reg('get_wmwf_vector', lambda args: bf.get_wmwf_vector(args[0], args[1]), Pxx, Pnn)
    reg('get_pca_vector', lambda args: bf.get_pca_vector(args[0], scaling='trace'), Pxx)
    reg('get_gev_vector', lambda args: bf.get_gev_vector(args[0], args[1]), Pxx, Pnn)
    reg('get_gev_vector[use_eig]', lambda args: bf.get_gev_vector(args[0], args[1], use_eig=True), Pxx, Pnn)
    reg('blind_analytic_normalization', lambda args: bf.blind_analytic_normalization(args[0], args[1]), wv, Pnn)
    reg('condition_covariance', lambda args: bf.condition_covariance(args[0], 0.1), Pxx)
    reg('apply_beamforming_vector', lambda args: bf.apply_beamforming_vector(args[0], args[1]), wv, X)
    reg('get_lcmv_vector', lambda args: bf.get_lcmv_vector(args[0], args[1], args[2]),
        A.cnormal(r, (K, F, D)), np.array([1.0, 0.0]), Pnn)
    reg('phase_correction', lambda args: bf.phase_correction(args[0]), wv)
    for name in ('pca', 'pca+mvdr', 'scaled_gev_atf+mvdr', 'mvdr_souden', 'rank1_pca+mvdr_souden',
                 'rank1_gev+mvdr_souden+ban', 'gev', 'rank1_pca+gev', 'rank1_gev+gev', 'wmwf', 'rank1_gev+wmwf',
                 'gev+ban', 'ch0'):
        reg(f'get_bf_vector[{name}]', (lambda name: lambda args: bw.get_bf_vector(name, args[0], args[1]))(name),
            Pxx, Pnn)
    reg('get_pca_rank_one_estimate', lambda args: bw.get_pca_rank_one_estimate(args[0]), Pxx)
    reg('get_gev_rank_one_estimate', lambda args: bw.get_gev_rank_one_estimate(args[0], args[1]), Pxx, Pnn)
    # ---- masks
    for fn in ('ideal_binary_mask', 'wiener_like_mask'):
        reg(fn, (lambda fn: lambda args: getattr(mm, fn)(args[0], source_axis=0, sensor_axis=1))(fn), src)
    for fn in ('ideal_ratio_mask', 'ideal_amplitude_mask', 'phase_sensitive_mask', 'ideal_complex_mask'):
        reg(fn, (lambda fn: lambda args: getattr(mm, fn)(args[0], source_axis=0))(fn), src[:, 0])
    reg('lorenz_mask', lambda args: mm.lorenz_mask(args[0], sensor_axis=0), src[0])
    reg('quantile_mask', lambda args: mm.quantile_mask(args[0], quantile=(0.1, -0.9), axis=-2), src[0, 0])
    reg('biased_binary_mask', lambda args: mm.biased_binary_mask(args[0], low_cut=1, high_cut=3), src[:, 0])
    reg('voiced_unvoiced_split_characteristic', lambda args: mm.voiced_unvoiced_split_characteristic(65))
    # ---- alignment
    dh = dict(stft_size=4, segment_start=0, segment_width=2, segment_shift=1, main_iterations=3, sub_iterations=2)
    for metric in ('cos', 'euclidean', 'multiply'):
        for alg in ('greedy', 'optimal'):
            reg(f'DHTV[{metric},{alg}].calculate_mapping', (lambda metric, alg: lambda args: pa.DHTVPermutationAlignment(
                similarity_metric=metric, algorithm=alg, **dh).calculate_mapping(args[0]))(metric, alg), kft)
            reg(f'DHTV[{metric},{alg}].__call__', (lambda metric, alg: lambda args: pa.DHTVPermutationAlignment(
                similarity_metric=metric, algorithm=alg, **dh)(args[0]))(metric, alg), kft)
            reg(f'Greedy[{metric},{alg}].__call__', (lambda metric, alg: lambda args: pa.GreedyPermutationAlignment(
                metric, alg)(args[0]))(metric, alg), kft)
            reg(f'Oracle[{metric},{alg}].__call__', (lambda metric, alg: lambda args: pa.OraclePermutationAlignment(
                metric, alg)(args[0], args[1]))(metric, alg), kft, kft_ref)
    reg('apply_mapping', lambda args: pa.apply_mapping(args[0], args[1]), kft, np.array([[0, 1, 0], [1, 0, 1]]))
    reg('_mapping_from_score_matrix', lambda args: [pa._mapping_from_score_matrix(args[0], a) for a in ('greedy', 'optimal')],
        r.uniform(size=(F, K, K)))
    reg('sample_random_mapping', lambda args: pa.sample_random_mapping(3, 5), seeded=True)
    reg('interleave', lambda args: list(pa.interleave([1, 2, 3], ['a'])))
    # ---- metrics
    reg('si_sdr', lambda args: ms.si_sdr(args[0], args[1]), sig, sig[::-1] + 0.1)
    reg('get_snr', lambda args: sx.get_snr(args[0], args[1]), img[0], nz)
    reg('set_snr[inplace=False]', lambda args: sx.set_snr(args[0], args[1], 5.0, inplace=False), img[0], nz)
    reg('input_sxr', lambda args: tuple(sx.input_sxr(args[0], args[1])), img, nz)
    reg('output_sxr', lambda args: tuple(sx.output_sxr(args[0], args[1], average_sources=False)), oimg, onz)
    # ---- initializers
    for fn in ('uniform_normalized', 'dirichlet_uniform', 'one_hot'):
        reg(f'iid.{fn}', (lambda fn: lambda args: getattr(iid, fn)(args[0], 3))(fn), y, seeded=True)
    reg('deterministic.flag', lambda args: deterministic.flag(args[0], 3, permutation_free=True, minimum=0.1), y)
    # ---- the same functions with OTHER options / sizes (for the call-sequence exploration: a result that is
    #      memoised under an incomplete key shows up when two configurations of one function alternate)
    src2 = np.ascontiguousarray(np.moveaxis(src, 0, 1))          # (D, K, F, T): source axis 1, sensor axis 0
    reg('ideal_binary_mask[axes 1,0]', lambda args: mm.ideal_binary_mask(args[0], source_axis=1, sensor_axis=0), src2)
    reg('wiener_like_mask[axes 1,0]', lambda args: mm.wiener_like_mask(args[0], source_axis=1, sensor_axis=0), src2)
    reg('ideal_binary_mask[axis -1]', lambda args: mm.ideal_binary_mask(args[0], source_axis=-1), src[0, 0].real + 0j)
    reg('quantile_mask[axis -1]', lambda args: mm.quantile_mask(args[0], quantile=(0.2, -0.8), axis=-1), src[0, 0])
    reg('lorenz_mask[axis -1]', lambda args: mm.lorenz_mask(args[0], axis=-1, lorenz_fraction=0.9), src[0, 0])
    reg('get_wmwf_vector[ref 1]', lambda args: bf.get_wmwf_vector(args[0], args[1], reference_channel=1), Pxx, Pnn)
    reg('get_wmwf_vector[ref 2, mu 0.5]', lambda args: bf.get_wmwf_vector(args[0], args[1], reference_channel=2,
                                                                            distortion_weight=0.5), Pxx, Pnn)
    # badly conditioned (1e9 ... 1e11) but regular noise PSDs in some bins: a noise mask active in fewer frames than
    # there are microphones, plus a little sensor noise
    Pnn_ill = Pnn.copy()
    for f_, lvl in ((0, 1e-9), (F - 1, 1e-11)):
        v_ = A.cnormal(r, (D,))
        Pnn_ill[f_] = np.outer(v_, v_.conj()) + lvl * np.eye(D)
    for nm_, fn_ in (('get_mvdr_vector_souden', lambda args: bf.get_mvdr_vector_souden(args[0], args[1], ref_channel=0)),
                     ('get_wmwf_vector', lambda args: bf.get_wmwf_vector(args[0], args[1], reference_channel=0)),
                     ('get_gev_vector', lambda args: bf.get_gev_vector(args[0], args[1])),
                     ('get_lcmv_vector_souden', lambda args: bf.get_lcmv_vector_souden(args[0], args[0][::-1].copy(),
                                                                                        args[1], ref_channel=0)),
                     ('get_bf_vector[mvdr_souden]', lambda args: bw.get_bf_vector('mvdr_souden', args[0], args[1],
                                                                                  ref_channel=0)),
                     ('blind_analytic_normalization', lambda args: bf.blind_analytic_normalization(args[0][:, :, 0],
                                                                                                    args[1]))):
        reg(nm_ + '[badly conditioned noise PSD]', fn_, Pxx, Pnn_ill)
    reg('get_mvdr_vector[badly conditioned noise PSD]', lambda args: bf.get_mvdr_vector(args[0], args[1]), atf, Pnn_ill)
    Pxx_dead = Pxx.copy()
    Pxx_dead[1, 0, :] = 0
    Pxx_dead[1, :, 0] = 0                                         # first microphone silent in bin 1
    reg('get_wmwf_vector[frequency_dependent, silent first channel in one bin]',
        lambda args: bf.get_wmwf_vector(args[0], args[1], reference_channel=1,     # (the automatic choice asserts
                                        distortion_weight='frequency_dependent'),  # on the non-finite bin)
        Pxx_dead, Pnn)
    reg('get_wmwf_vector[frequency_dependent]',
        lambda args: bf.get_wmwf_vector(args[0], args[1], distortion_weight='frequency_dependent'), Pxx, Pnn)
    reg('get_mvdr_vector_souden[ref 1]', lambda args: bf.get_mvdr_vector_souden(args[0], args[1], ref_channel=1), Pxx, Pnn)
    reg('get_pca_vector[eigenvalue]', lambda args: bf.get_pca_vector(args[0], scaling='eigenvalue'), Pxx)
    # real-dtype (symmetric, not bit-exactly so) noise PSDs and stacks of 64 bins with noise-free bins
    Pnn_r = np.stack([A.hpd(seed, D, 10.0, 'c20nr', f, complex_=False).real for f in range(F)])
    Pnn_r = Pnn_r + 1e-17 * np.triu(np.ones((D, D)), 1)          # asymmetric in the last bit
    reg('get_mvdr_vector[real noise PSD]', lambda args: bf.get_mvdr_vector(args[0], args[1]), atf, Pnn_r)
    reg('get_mvdr_vector_souden[real noise PSD]', lambda args: bf.get_mvdr_vector_souden(args[0], args[1], ref_channel=0),
        Pxx, Pnn_r)
    reg('get_wmwf_vector[real noise PSD]', lambda args: bf.get_wmwf_vector(args[0], args[1], reference_channel=0),
        Pxx, Pnn_r)
    reg('get_gev_vector[real noise PSD]', lambda args: bf.get_gev_vector(args[0], args[1]), Pxx, Pnn_r)
    w64 = A.cnormal(r, (64, D))
    Pnn64 = np.stack([A.hpd(seed, D, 10.0, 'c20n64', f) for f in range(64)])
    Pnn64[[0, 17, 63]] = 0                                        # bins without any noise power
    def ban_with_heap_traffic(args):
        # the identical call repeated while other allocations of varying size, content and lifetime happen in
        # between: every repetition has to be bit-identical (an output buffer that is not initialised shows
        # left-over memory in the bins without noise power)
        rr = np.random.RandomState(4321)
        keep, outs = [], []
        for rep in range(16):
            outs.append(np.asarray(bf.blind_analytic_normalization(args[0], args[1])))
            tmp = [np.full(64, rr.choice([1., 7.5, 1e300, -3.]) * (1 + 1j)) for _ in range(rr.randint(1, 6))]
            if rr.rand() < 0.5:
                keep.append(tmp.pop())
            if len(keep) > 4:
                del keep[rr.randint(len(keep))]
            F2 = int(rr.choice([64, 65, 128, 32]))
            a_ = rr.randn(F2, D, D) + 1j * rr.randn(F2, D, D)
            bf.blind_analytic_normalization(rr.randn(F2, D) + 1j * rr.randn(F2, D), a_ @ a_.conj().swapaxes(-1, -2))
            del tmp
        return outs
    reg('blind_analytic_normalization[zero bins, F=64]', ban_with_heap_traffic, w64, Pnn64)
    E_.expect['blind_analytic_normalization[zero bins, F=64]'] = lambda outs: None if all(
        o.tobytes() == outs[0].tobytes() for o in outs) else \
        'the identical call repeated 16 times (other allocations in between) does not return identical bits'
    reg('get_bf_vector[pca+ban, zero bins, F=64]', lambda args: bw.get_bf_vector('pca+ban', args[0], args[1]),
        np.stack([A.hpd(seed, D, 10.0, 'c20x64', f) for f in range(64)]), Pnn64)
    y2 = A.cnormal(r, (F, T, 2))
    reg('ComplexWatsonTrainer.fit[D=2]', lambda args: d.ComplexWatsonTrainer().fit(args[0]), y2)
    reg('ComplexWatsonTrainer.fit[max 50]', lambda args: d.ComplexWatsonTrainer(max_concentration=50).fit(args[0]),
        y[:, :1] + 0.02 * y)
    reg('CWMMTrainer.fit[max 5]', lambda args: d.CWMMTrainer(max_concentration=5).fit(
        args[0], initialization=args[1], iterations=2), y[:, :1] + 0.02 * y, init)
    reg('VonMisesFisherTrainer.fit[bounds]', lambda args: d.VonMisesFisherTrainer().fit(
        args[0], min_concentration=2.0, max_concentration=5.0), yr[:, :1] + 0.02 * yr)
    kft5 = act[:, None, :] * (1 + 0.05 * r.uniform(size=(K, 5, T)))
    kft5[:, 3] = kft5[::-1, 3]
    reg('DHTV[F=5].__call__', lambda args: pa.DHTVPermutationAlignment(
        stft_size=8, segment_start=1, segment_width=2, segment_shift=1, main_iterations=3, sub_iterations=2)(args[0]), kft5)
    # masks whose rows already have unit norm over time (a normalisation that is skipped must not turn the caller's
    # mask into the work buffer); bin 3 needs a swap
    kft5n = kft5 / np.linalg.norm(kft5, axis=-1, keepdims=True)
    for metric in ('cos', 'euclidean'):
        reg(f'DHTV[F=5,{metric}].calculate_mapping[unit-norm rows]', (lambda metric: lambda args: pa.DHTVPermutationAlignment(
            stft_size=8, segment_start=1, segment_width=2, segment_shift=1, main_iterations=3, sub_iterations=2,
            similarity_metric=metric).calculate_mapping(args[0]))(metric), kft5n)
        reg(f'Greedy[{metric}].__call__[unit-norm rows]', (lambda metric: lambda args: pa.GreedyPermutationAlignment(
            similarity_metric=metric)(args[0]))(metric), kft5n)
    reg('Oracle[cos].__call__[other reference]', lambda args: pa.OraclePermutationAlignment('cos', 'greedy')(
        args[0], args[1]), kft[:, ::-1], kft_ref[:, ::-1])
    reg('get_power_spectral_density_matrix[dims]', lambda args: bf.get_power_spectral_density_matrix(
        args[0], args[1], sensor_dim=1, source_dim=1, time_dim=0), np.ascontiguousarray(X[0].T),
        np.ascontiguousarray(tfmask[0].T))
    return E_


def _digest(obj):
    """deterministic bytes of a result (arrays, models, tuples)."""
    if isinstance(obj, np.ndarray):
        return obj.tobytes() + str(obj.shape).encode() + str(obj.dtype).encode()
    if isinstance(obj, (tuple, list)):
        return b'|'.join(_digest(o) for o in obj)
    if isinstance(obj, dict):
        return b'|'.join(k.encode() + _digest(v) for k, v in sorted(obj.items()))
    if hasattr(obj, '__dataclass_fields__'):
        return b'|'.join(k.encode() + _digest(getattr(obj, k)) for k in obj.__dataclass_fields__)
    if obj is None or isinstance(obj, (int, float, complex, str, bool, np.generic)):
        return repr(obj).encode()
    return repr(type(obj)).encode()


PUBLIC_MODULES = {
    'pb_bss.extraction.beamformer': None, 'pb_bss.extraction.mask_module': None,
    'pb_bss.permutation_alignment': None, 'pb_bss.evaluation.sxr_module': None,
}


def public_names():
    """public names declared by the modules' __all__ (the driver table must cover them)."""
    import importlib
    out = {}
    for mod in PUBLIC_MODULES:
        m = importlib.import_module(mod)
        out[mod] = list(getattr(m, '__all__', []))
    return out


def run_purity(key):
    name, layout, seed = key['name'], key['layout'], key['seed']
    table = entries(seed)
    fn, arrays, seeded, state = table[name]
    args = [_layout(a, layout) for a in arrays]
    snaps = [a.copy() for a in args]
    state0 = None if state is None else _digest(state)
    results = []
    for rep in range(2):
        if seeded:
            np.random.seed(1234)
        try:
            with np.errstate(all='ignore'):
                res = fn(list(args))
        except NotImplementedError as e:
            return trivial(f'documented NotImplementedError: {e}'[:80])
        except Exception as e:  # noqa
            return viol(f'{name} raised {e!r} with {layout} arguments')
        for i, (a, s) in enumerate(zip(args, snaps)):
            if not (a.shape == s.shape and a.tobytes() == s.tobytes()):
                return viol(f'{name} modified its argument #{i} ({layout} layout, shape {s.shape})')
        results.append(_digest(res))
        if name in table.expect:
            msg = table.expect[name](res)
            if msg:
                return viol(f'{name}: {msg}')
        if state is not None and _digest(state) != state0:
            return viol(f'{name}: the call changed the parameters stored in the model object')
    if results[0] != results[1]:
        return viol(f'{name}: repeating the call (same arguments{", same NumPy seed" if seeded else ""}) gives a '
                    f'different result')
    return ok(outcome=hashlib.sha1(results[0]).hexdigest()[:12], evals=2)


def isolated_result(name, seed, premade):
    """result arrays of one entry evaluated in a pristine python process: no library function was called before
    it (the fitted models that predict entries need are handed over pickled instead of being fitted there)."""
    code = (
        "import sys, pickle, numpy as np\n"
        "sys.path.insert(0, %r); sys.path.insert(1, %r); sys.path.append(%r)\n"
        "from mc.props import c20\n"
        "premade = pickle.loads(sys.stdin.buffer.read())\n"
        "table = c20.entries(%d, premade=premade)\n"
        "sys.stdout.buffer.write(pickle.dumps(c20.call_entry(%r, %d, table)))\n"
    ) % (REPO, HERE, os.path.join(HERE, '_vendor'), seed, name, seed)
    env = dict(os.environ, PYTHONWARNINGS='ignore')
    p_ = subprocess.run([sys.executable, '-c', code], input=pickle.dumps(premade), capture_output=True, env=env,
                        timeout=600)
    if p_.returncode != 0:
        raise HarnessError('isolated evaluation failed: ' + p_.stderr.decode()[-600:])
    return pickle.loads(p_.stdout)


def _flatten(res):
    """arrays of a result (arrays, scalars, dataclass models, tuples / lists / dicts of those)."""
    out = {}

    def walk(prefix, o):
        if hasattr(o, '__dataclass_fields__'):
            for k in o.__dataclass_fields__:
                walk(prefix + k + '.', getattr(o, k))
        elif isinstance(o, (tuple, list)):
            for i, v in enumerate(o):
                walk(prefix + str(i) + '.', v)
        elif isinstance(o, dict):
            for k, v in sorted(o.items()):
                walk(prefix + str(k) + '.', v)
        elif isinstance(o, np.ndarray) or np.isscalar(o):
            out[prefix] = np.asarray(o)
    walk('', res)
    return out


def call_entry(name, seed, table=None):
    fn, arrays, seeded, _ = (table or entries(seed))[name]
    args = [_layout(a, 'readonly') for a in arrays]
    if seeded:
        np.random.seed(1234)
    try:
        with np.errstate(all='ignore'):
            return ('ok', _flatten(fn(list(args))))
    except NotImplementedError:
        return ('not_implemented', {})
    except Exception as e:  # noqa
        return ('raised', {'type': np.asarray(type(e).__name__)})


def same_group(a, b):
    """entries that exercise the same function / class (ignoring the bracketed configuration)."""
    base = lambda n: n.split('[')[0].split('.')[0].replace('Trainer', '')   # noqa: E731
    return base(a) == base(b)


def run_sequence(key):
    """history independence at the level of single calls: the result of entry X after any other entry Y was
    called in the same process equals the result of X in a pristine process (depth-2 histories Y;X over the
    entry alphabet, all Y in the thorough tier, the entries of the same function / class and a fixed cross
    section of the others in the quick tier)."""
    name, seed, scope = key['name'], key['seed'], key['scope']
    table = entries(seed)
    want = isolated_result(name, seed, table.premade)
    if want[0] == 'not_implemented':
        return trivial('documented NotImplementedError')
    names = sorted(table)
    others = [n for n in names if scope == 'all' or same_group(n, name) or names.index(n) % 9 == 0]
    n = 0
    for other in others:
        call_entry(other, seed, table)
        got = call_entry(name, seed, table)
        if got[0] != want[0]:
            return viol(f'{name} after {other}: {got[0]} (in a pristine process: {want[0]})')
        if set(got[1]) != set(want[1]):
            return viol(f'{name} after {other}: result fields {sorted(got[1])} != {sorted(want[1])}')
        for k_ in want[1]:
            a, b = np.asarray(got[1][k_]), np.asarray(want[1][k_])
            if a.shape != b.shape:
                return viol(f'{name} after {other}: {k_} shape {a.shape} != {b.shape} of the pristine process')
            if a.dtype.kind in 'fc':
                bad = tol.mismatch(a, b, 1e-9, what=f'{name} after {other} vs pristine process: {k_}')
                if bad:
                    return viol(bad)
                # exact zeros are exact zeros in every history (left-over memory in an un-initialised buffer is
                # typically a denormal: invisible to any tolerance, but not reproducible)
                if not np.array_equal(a == 0, b == 0):
                    return viol(f'{name} after {other}: {k_} has exact zeros at other positions than in the pristine '
                                f'process ({int((a == 0).sum())} vs {int((b == 0).sum())} zeros)')
            elif not np.array_equal(a, b):
                return viol(f'{name} after {other}: {k_} differs from the pristine process')
        n += 1
    return ok(outcome=hashlib.sha1(b''.join(np.ascontiguousarray(v).tobytes() for v in want[1].values())).hexdigest()[:12],
              evals=2 * n + 1, states=n + 1, transitions=2 * n)


def run_coverage(key):
    """every name in __all__ of the listed modules has a driver."""
    table = entries(key['seed'])
    driven = ' '.join(table)
    missing = []
    alias = {'DHTVPermutationAlignment': 'DHTV[', 'OraclePermutationAlignment': 'Oracle[',
             'GreedyPermutationAlignment': 'Greedy[', 'get_lcmv_vector_souden': None}
    for mod, names in public_names().items():
        for n in names:
            pat = alias.get(n, n)
            if pat is None:
                continue
            if pat not in driven:
                missing.append(f'{mod}.{n}')
    if missing:
        raise HarnessError('public names without a purity driver: ' + ', '.join(missing))
    return ok(outcome=str(len(table)), evals=len(table))


# ======================================================================= (b) trainer histories

TRAINER_CONFIGS = (
    ('CWMMTrainer', {}), ('CWMMTrainer', {'dimension': 3}), ('CWMMTrainer', {'max_concentration': 5.0}),
    ('ComplexWatsonTrainer', {}), ('ComplexWatsonTrainer', {'max_concentration': 5.0}),
    ('CBMMTrainer', {}), ('ComplexBinghamTrainer', {}),
    ('CACGMMTrainer', {}), ('GMMTrainer', {}), ('VMFMMTrainer', {}),
)
EVENTS = ('A', 'B', 'C', 'A_nc', 'A_fp', 'A2', 'other')


def _cls(name):
    d = impl.dist()
    return getattr(d, name)


def event_data(seed, cls_name):
    cplx = cls_name not in ('GMMTrainer', 'VMFMMTrainer')
    small = cls_name in ('CBMMTrainer', 'ComplexBinghamTrainer')
    N = 8 if small else 14
    out = {}
    for ev, D, K in (('A', 3, 2), ('B', 3, 3), ('C', 2, 2)):
        y, lab = A.clustered_data(seed, (), K, N // K + 1, D, 'c20ev', ev, cls_name, complex_=cplx, noise=0.4)
        out[ev] = dict(y=y, K=K, init=A.soft_affiliation(seed, (), K, y.shape[0], 'c20ev', ev, cls_name),
                       sal=np.linspace(0.5, 1.5, y.shape[0]))
    # 'A2': another utterance of the same shape as 'A'; both are handed over in ONE buffer that the caller refills
    # in place (a result remembered per array object or per shape would be stale)
    y2, _ = A.clustered_data(seed, (), 2, N // 2 + 1, 3, 'c20ev', 'A2', cls_name, complex_=cplx, noise=0.4)
    out['A2'] = dict(out['A'], y=y2)
    out['buf'] = np.empty_like(out['A']['y'])
    return out


def do_event(tr, cls_name, ev, data):
    """returns ('ok', result digest arrays) or ('rejected', message)."""
    single = cls_name in ('ComplexWatsonTrainer', 'ComplexBinghamTrainer')
    e = 'A' if ev in ('A_nc', 'A_fp', 'other') else ev
    dd = data[e]
    if e in ('A', 'A2'):
        data['buf'][...] = dd['y']
        dd = dict(dd, y=data['buf'])
    try:
        if single:
            if ev == 'B':
                m = tr.fit(dd['y'], saliency=dd['sal'])
            else:
                m = tr.fit(dd['y'])
            res = m
        elif ev == 'A_nc':
            np.random.seed(77)
            res = tr.fit(dd['y'], num_classes=dd['K'], iterations=2)
        elif ev == 'A_fp':
            res = tr.fit_predict(dd['y'], initialization=dd['init'], iterations=2)
        elif ev == 'B':
            res = tr.fit(dd['y'], initialization=dd['init'], iterations=2, saliency=dd['sal'],
                         weight_constant_axis=-2)
        else:
            res = tr.fit(dd['y'], initialization=dd['init'], iterations=2)
    except AssertionError as ex:
        return 'rejected', str(ex)[:120]
    return 'ok', res


def result_arrays(res):
    if isinstance(res, np.ndarray):
        return {'array': res}
    out = {}

    def walk(prefix, o):
        if hasattr(o, '__dataclass_fields__'):
            for k in o.__dataclass_fields__:
                walk(prefix + k + '.', getattr(o, k))
        elif isinstance(o, np.ndarray) or np.isscalar(o):
            out[prefix] = np.asarray(o)
    walk('', res)
    return out


def state_key(tr):
    items = sorted(tr.__dict__.items())
    try:
        blob = pickle.dumps(items, protocol=4)
    except Exception:  # noqa
        blob = repr([(k, type(v).__name__) for k, v in items]).encode()
    return hashlib.sha1(blob).hexdigest()


def fresh_reference(cls_name, kw, seed):
    """results of every event on a fresh trainer, computed in a pristine python process."""
    code = (
        "import sys, pickle, numpy as np\n"
        "sys.path.insert(0, %r); sys.path.insert(1, %r); sys.path.append(%r)\n"
        "from mc.props import c20\n"
        "out = {}\n"
        "data = c20.event_data(%d, %r)\n"
        "for ev in c20.EVENTS:\n"
        "    if ev == 'other':\n"
        "        continue\n"
        "    tr = c20._cls(%r)(**%r)\n"
        "    st, res = c20.do_event(tr, %r, ev, data)\n"
        "    out[ev] = (st, c20.result_arrays(res) if st == 'ok' else res)\n"
        "sys.stdout.buffer.write(pickle.dumps(out))\n"
    ) % (REPO, HERE, os.path.join(HERE, '_vendor'), seed, cls_name, cls_name, kw, cls_name)
    env = dict(os.environ, PYTHONWARNINGS='ignore')
    p = subprocess.run([sys.executable, '-c', code], capture_output=True, env=env, timeout=600)
    if p.returncode != 0:
        raise HarnessError('fresh reference process failed: ' + p.stderr.decode()[-600:])
    return pickle.loads(p.stdout)


def other_trainer_event(cls_name, kw, data):
    """use a DIFFERENT trainer object of the same class with other settings (class-level caches would leak)."""
    kw2 = dict(kw)
    if cls_name in ('CWMMTrainer', 'ComplexWatsonTrainer'):
        kw2['max_concentration'] = 17.0 if kw.get('max_concentration') != 17.0 else 500
    elif cls_name in ('CBMMTrainer', 'ComplexBinghamTrainer'):
        kw2['max_concentration'] = 50.0
    tr2 = _cls(cls_name)(**kw2)
    do_event(tr2, cls_name, 'A', data)
    do_event(_cls(cls_name)(**kw2), cls_name, 'C', data)


def run_history(key):
    cfg, depth, seed = key['cfg'], key['depth'], key['seed']
    cls_name, kw = TRAINER_CONFIGS[cfg]
    data = event_data(seed, cls_name)
    ref = fresh_reference(cls_name, kw, seed)
    stateful = cls_name in ('CWMMTrainer', 'CBMMTrainer', 'ComplexWatsonTrainer', 'ComplexBinghamTrainer')
    rt = 1e-5 if cls_name in ('CBMMTrainer', 'ComplexBinghamTrainer') else 1e-12
    events = [e for e in EVENTS if not (cls_name in ('ComplexWatsonTrainer', 'ComplexBinghamTrainer')
                                        and e in ('A_nc', 'A_fp'))]

    def build(hist):
        tr = _cls(cls_name)(**kw)
        others = 0
        for ev in hist:
            if ev == 'other':
                other_trainer_event(cls_name, kw, data)
                others += 1
            else:
                do_event(tr, cls_name, ev, data)
        return tr, others

    def check_transition(hist, ev):
        tr, others = build(hist)
        before = state_key(tr)
        dim_before = getattr(tr, 'dimension', None)
        if ev == 'other':
            other_trainer_event(cls_name, kw, data)
            if state_key(tr) != before:
                return 'using another trainer object changed this trainer', None
            return None, (before, others + 1)
        st, res = do_event(tr, cls_name, ev, data)
        want_st, want = ref[ev]
        Dev = data['A' if ev.startswith('A') else ev]['y'].shape[-1]  # ('A2' has the shape of 'A')
        if stateful and dim_before is not None and dim_before != Dev:
            if st != 'rejected':
                return (f'history {hist}: fit with feature dimension {Dev} accepted on a trainer whose cached '
                        f'dimension is {dim_before}'), None
            if state_key(tr) != before:
                return f'history {hist}: a rejected fit changed the trainer state', None
            return None, (before, others)
        if st != want_st:
            return f'history {hist} then {ev}: {st} on the reused trainer but {want_st} on a fresh one ({res if st == "rejected" else ""})', None
        if st == 'ok':
            got = result_arrays(res)
            if sorted(got) != sorted(want):
                return f'history {hist} then {ev}: result fields differ from a fresh trainer', None
            for name in got:
                bad = tol.mismatch(got[name], want[name], rt, what=f'history {hist} then {ev}: {name} vs fresh trainer')
                if bad:
                    return bad, None
        return None, (state_key(tr), others)

    # breadth-first search with exact merging on (deep trainer state, number of interference events > 0)
    seen = {}
    tr0, _ = build([])
    frontier = collections.deque([[]])
    seen[(state_key(tr0), False)] = []
    transitions = 0
    while frontier:
        hist = frontier.popleft()
        for ev in events:
            bad, nxt = check_transition(hist, ev)
            transitions += 1
            if bad:
                return viol(f'{cls_name}{kw}: {bad}')
            k = (nxt[0], nxt[1] > 0)
            if k not in seen:
                if len(hist) + 1 > 8:
                    return viol(f'{cls_name}{kw}: trainer state space does not close (history {hist + [ev]})')
                seen[k] = hist + [ev]
                frontier.append(hist + [ev])
    closed_states = len(seen)
    # independently: every history up to `depth` without merging
    unmerged = 0
    for L in range(1, depth + 1):
        for hist in itertools.product(events, repeat=L):
            bad, _ = check_transition(list(hist[:-1]), hist[-1])
            unmerged += 1
            if bad:
                return viol(f'{cls_name}{kw}: {bad}')
    return ok(outcome=f'{cls_name}:{closed_states}', states=closed_states, transitions=transitions + unmerged,
              evals=transitions + unmerged, traces=unmerged,
              detail=dict(closed_states=closed_states, histories_unmerged=unmerged))


# ======================================================================= (c) split clause

def run_split(key):
    n, ds, opt, seed = key['n'], key['data'], key['opt'], key['seed']
    d = impl.dist()
    F, K, D = 2, 2 + (ds == 'three'), 3
    N = 8 * K
    y, lab = A.clustered_data(seed, (F,), K, N // K, D, 'c20split', ds,
                              noise={'separated': 0.03, 'diffuse': 0.5, 'three': 0.1}[ds])
    init = A.partition_affiliation(lab, K, blur=0.3, lead=(F,))
    opts = {}
    if opt == 'eps':
        opts['affiliation_eps'] = 1e-3
    elif opt == 'trace':
        opts['covariance_norm'] = 'trace'
    elif opt == 'sal':
        opts['saliency'] = A.graded_saliency((F,), y.shape[-2])
    elif opt == 'wca':
        opts['weight_constant_axis'] = (-3, -1)
    elif opt == 'mask':
        m = np.ones((F, K, y.shape[-2]), bool)
        m[:, 0, :2] = False
        opts['source_activity_mask'] = m
    states = []
    for i in range(1, n + 1):
        try:
            states.append(d.CACGMMTrainer().fit(y, initialization=init, iterations=i, **opts))
        except Exception as e:  # noqa
            return viol(f'fit(iterations={i}) raised {e!r}')
    edges = 0
    for i in range(1, n):
        for j in range(1, n - i + 1):
            try:
                m = d.CACGMMTrainer().fit(y, initialization=states[i - 1], iterations=j, **opts)
            except Exception as e:  # noqa
                return viol(f'continued fit from model_{i} raised {e!r}')
            fa, fb = M.fields('cacgmm', m), M.fields('cacgmm', states[i + j - 1])
            for name in fa:
                bad = tol.mismatch(fa[name], fb[name], 1e-8,
                                   what=f'fit(initialization=model_{i}, iterations={j}) vs model_{i + j}: {name}')
                if bad:
                    return viol(bad + f' (data {ds}, option {opt})')
            edges += 1
    return ok(outcome=f'{ds}:{opt}:{edges}', states=n, transitions=edges, evals=n + edges)


# ======================================================================= (d) TLC cache model

TLA_DIR = os.path.join(os.path.dirname(os.path.dirname(os.path.abspath(__file__))), 'tla')


def run_tlc_cache(key):
    maxlen, seed = key['maxlen'], key['seed']
    tmp = tempfile.mkdtemp(prefix='c20tlc_', dir='/var/tmp')
    try:
        with open(os.path.join(TLA_DIR, 'TrainerCache.tla')) as f, open(os.path.join(tmp, 'TrainerCache.tla'), 'w') as g:
            g.write(f.read())
        with open(os.path.join(tmp, 'TrainerCache.cfg'), 'w') as g:
            g.write(f'CONSTANT MaxLen = {maxlen}\nINIT Init\nNEXT Next\nINVARIANT TypeOK\nINVARIANT NeverChangesDim\n')
        dump = os.path.join(tmp, 'cache.dot')
        try:
            p = subprocess.run(['tlc', '-workers', '2', '-deadlock', '-noGenerateSpecTE', '-metadir',
                                os.path.join(tmp, 'meta'), '-dump', 'dot,actionlabels', dump, 'TrainerCache'],
                               cwd=tmp, capture_output=True, text=True, timeout=1200)
        except FileNotFoundError:
            return trivial('tlc not available')
        if 'No error has been found' not in p.stdout:
            return viol('TLC reports an error in the cache model: ' + p.stdout[-600:])
        mm = re.search(r'(\d+) distinct states found', p.stdout)
        distinct = int(mm.group(1)) if mm else 0
        text = open(dump).read()
        nodes = {}
        for m_ in re.finditer(r'^(-?\d+) \[label="((?:[^"\\]|\\.)*)"(.*?)\];?$', text, re.M):
            st = {}
            for part in m_.group(2).split('\\n'):
                mm2 = re.match(r'\s*/\\\\ (\w+) = (.*)', part)
                if mm2:
                    st[mm2.group(1)] = mm2.group(2).strip()
            nodes[m_.group(1)] = (st, 'filled' in m_.group(3))
        edges = collections.defaultdict(list)
        for m_ in re.finditer(r'^(-?\d+) -> (-?\d+)', text, re.M):
            if m_.group(1) != m_.group(2):
                edges[m_.group(1)].append(m_.group(2))
        # every maximal path of the model = one history <<d1, d2, ...>> with its accept/reject outcomes
        leaves = [n for n in nodes if not edges.get(n)]
        paths = 0
        for cls_name in ('CWMMTrainer', 'CBMMTrainer', 'ComplexWatsonTrainer', 'ComplexBinghamTrainer'):
            data = event_data(seed, cls_name)
            for leaf in leaves:
                st = nodes[leaf][0]
                hist = [int(x) for x in re.findall(r'\d+', st['hist'])]
                outcomes = re.findall(r'(accept|reject)', st['outs'])
                if len(hist) != len(outcomes):
                    raise HarnessError(f'cannot parse model state {st}')
                if cls_name in ('CBMMTrainer', 'ComplexBinghamTrainer') and len(hist) > 3:
                    continue
                tr = _cls(cls_name)()
                dim = None
                for dval, want in zip(hist, outcomes):
                    ev = 'A' if dval == 3 else 'C'
                    got, _res = do_event(tr, cls_name, ev, data)
                    got = 'accept' if got == 'ok' else 'reject'
                    if got != want:
                        return viol(f'{cls_name}: history of feature dimensions {hist}: model says {want} for '
                                    f'dimension {dval}, implementation {got}')
                    if got == 'accept':
                        dim = dval
                    if tr.dimension != dim:
                        return viol(f'{cls_name}: cached dimension {tr.dimension} after history {hist}, model {dim}')
                paths += 1
        if not paths:
            raise HarnessError('no model paths parsed')
        return ok(outcome=f'tlc:{distinct}:{paths}', states=distinct, transitions=sum(len(v) for v in edges.values()),
                  traces=paths, evals=paths)
    finally:
        subprocess.run(['rm', '-rf', tmp])


# ======================================================================= (e) source scan

SCAN_DIRS = ('pb_bss/distribution', 'pb_bss/extraction', 'pb_bss/evaluation/sxr_module.py',
             'pb_bss/evaluation/module_si_sdr.py', 'pb_bss/permutation_alignment.py', 'pb_bss/utils.py',
             'pb_bss/math', 'pb_bss/initializer')


def scan_file(path):
    src = open(path).read()
    try:
        tree = ast.parse(src)
    except SyntaxError:
        return []
    findings = []
    mutable_ctor = {'list', 'dict', 'set', 'defaultdict', 'OrderedDict', 'deque', 'Counter'}

    def is_mutable(node):
        if isinstance(node, (ast.List, ast.Dict, ast.Set, ast.ListComp, ast.DictComp, ast.SetComp)):
            return True
        if isinstance(node, ast.Call):
            f = node.func
            nm = f.id if isinstance(f, ast.Name) else f.attr if isinstance(f, ast.Attribute) else ''
            return nm in mutable_ctor or nm in ('zeros', 'empty', 'ones', 'array')
        return False
    module_names = set()
    for node in tree.body:
        if isinstance(node, ast.Assign) and is_mutable(node.value):
            for t in node.targets:
                if isinstance(t, ast.Name) and t.id != '__all__':
                    module_names.add(t.id)
    for node in ast.walk(tree):
        if isinstance(node, ast.Global):
            findings.append(f'{path}:{node.lineno}: global statement ({", ".join(node.names)})')
        if isinstance(node, (ast.FunctionDef, ast.AsyncFunctionDef)):
            for dec in node.decorator_list:
                txt = ast.unparse(dec)
                if re.search(r'\b(lru_cache|cache|memoize)\b', txt) and 'cached_property' not in txt:
                    findings.append(f'{path}:{node.lineno}: memoising decorator {txt} on {node.name}')
        if isinstance(node, ast.ClassDef):
            for st in node.body:
                if isinstance(st, ast.Assign) and is_mutable(st.value):
                    findings.append(f'{path}:{st.lineno}: class-level mutable attribute in {node.name}')
                if isinstance(st, ast.AnnAssign) and st.value is not None and is_mutable(st.value):
                    findings.append(f'{path}:{st.lineno}: class-level mutable attribute in {node.name}')
    # module-level containers mutated from inside functions
    for fn in ast.walk(tree):
        if not isinstance(fn, (ast.FunctionDef, ast.AsyncFunctionDef)):
            continue
        local = {a.arg for a in fn.args.args + fn.args.kwonlyargs}
        for node in ast.walk(fn):
            tgt = None
            if isinstance(node, (ast.Assign, ast.AugAssign)):
                ts = node.targets if isinstance(node, ast.Assign) else [node.target]
                for t in ts:
                    if isinstance(t, ast.Subscript) and isinstance(t.value, ast.Name):
                        tgt = t.value.id
                    if isinstance(t, ast.Name):
                        local.add(t.id)
            if isinstance(node, ast.Call) and isinstance(node.func, ast.Attribute) and \
                    isinstance(node.func.value, ast.Name) and \
                    node.func.attr in ('append', 'update', 'add', 'setdefault', 'extend', 'pop', 'clear', 'insert'):
                tgt = node.func.value.id
            if tgt and tgt in module_names and tgt not in local:
                findings.append(f'{path}:{node.lineno}: module-level container {tgt} mutated in {fn.name}()')
    return findings


def run_scan(key):
    findings = []
    n = 0
    for rel in SCAN_DIRS:
        p = os.path.join(REPO, rel)
        files = [p] if p.endswith('.py') else [os.path.join(dp, f) for dp, _, fs in os.walk(p) for f in fs
                                               if f.endswith('.py')]
        for f in sorted(files):
            if f.endswith('_verif.py'):
                continue
            findings += scan_file(f)
            n += 1
    if findings:
        return viol('shared mutable state in the library (results may depend on history): ' + '; '.join(findings[:6]),
                    findings)
    return ok(outcome=str(n), evals=n)


# ======================================================================= sub-check list

def subchecks(tier, seed):
    thorough = tier == 'thorough'
    subs = []
    names = sorted(entries(seed))

    def purity_cases():
        for name in names:
            for layout in ('readonly', 'colmajor_writeable'):
                yield (name, layout, seed)
    subs.append(Sub('purity_and_repeatability', ('name', 'layout', 'seed'), purity_cases, run_purity,
                    bound=dict(entry_points=len(names), layouts=['readonly', 'colmajor_writeable'])))
    subs.append(Sub('public_names_covered', ('seed',), lambda: [(seed,)], run_coverage, min_outcomes=1))

    def seq_cases():
        for name in names:
            yield (name, 'all' if thorough else 'group', seed)
    subs.append(Sub('call_sequences', ('name', 'scope', 'seed'), seq_cases, run_sequence,
                    bound=dict(entry_points=len(names), histories='Y;X for all ordered pairs (thorough) / Y in the same '
                               'function group or every 9th entry (quick)', oracle='X evaluated in a pristine process')))

    def hist_cases():
        for cfg in range(len(TRAINER_CONFIGS)):
            cls_name = TRAINER_CONFIGS[cfg][0]
            slow = cls_name in ('CBMMTrainer', 'ComplexBinghamTrainer')
            depth = (5 if thorough else 3) if not slow else (3 if thorough else 2)
            yield (cfg, depth, seed)
    subs.append(Sub('trainer_histories', ('cfg', 'depth', 'seed'), hist_cases, run_history,
                    bound=dict(events=list(EVENTS), configs=[f'{c}{k}' for c, k in TRAINER_CONFIGS],
                               note='closure with exact merging + all unmerged histories to the stated depth')))

    def split_cases():
        n = 20 if thorough else 10
        for ds in ('separated', 'diffuse', 'three'):
            for opt in ('default', 'eps', 'trace', 'sal', 'wca', 'mask'):
                yield (n, ds, opt, seed)
    subs.append(Sub('split_edges', ('n', 'data', 'opt', 'seed'), split_cases, run_split,
                    bound=dict(edges='all fit(initialization=model_i, iterations=j) with i+j<=n')))
    subs.append(Sub('tlc_cache_model', ('maxlen', 'seed'), lambda: [(5 if thorough else 4, seed)],
                    run_tlc_cache, min_outcomes=1))
    subs.append(Sub('shared_state_scan', ('seed',), lambda: [(seed,)], run_scan, min_outcomes=1))
    return subs
