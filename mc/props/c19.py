"""C19 — SI-SDR and invasive SXR metrics obey their defining identities.

SI-SDR: all estimates in {-1,0,1}^8 against four integer references, generic signals
with leading axes; SXR: integer and generic signals x K x outputs x scale factors x
all output permutations x options; set_snr/get_snr."""
import itertools
import math

import numpy as np

from mc.core import Sub, ok, viol
from mc import alphabet as A
from mc import tol

LEVEL = 'exploration'
RULE = ('SI-SDR: all 3^8 ternary estimates x 4 integer references, generic T in {8,64,4096} x leading axes x '
        'scale factors; SXR: K{1..4} x outputs{1..5} x signal kinds x scale factors {1e-6,1e-3,-1,2,1e6} x all '
        'output permutations x average/return_dict options; SNR targets x inplace')
ASSUMPTIONS = ['documented values for degenerate SI-SDR cases: zero residual -> +inf, zero projection -> -inf, 0/0 -> nan']

REFS = ((1, 0, 0, 0, 0, 0, 0, 0), (1, 1, 1, 1, 1, 1, 1, 1), (1, -1, 2, 0, 0, 3, -2, 1), (0, 0, 0, 2, 2, 0, 0, 0))
SCALES = (1e-6, 1e-3, -1.0, 2.0, 1e6)


def _ev():
    from pb_bss.evaluation import module_si_sdr, sxr_module
    return module_si_sdr, sxr_module


def ref_si_sdr(s, e):
    s = [float(v) for v in s]
    e = [float(v) for v in e]
    ss = sum(v * v for v in s)
    se = sum(a * b for a, b in zip(s, e))
    with np.errstate(all='ignore'):
        alpha = np.float64(se) / np.float64(ss)
        proj = [alpha * v for v in s]
        num = np.float64(sum(p * p for p in proj))
        den = np.float64(sum((a - p) ** 2 for a, p in zip(e, proj)))
        return 10 * np.log10(num / den)


def same_value(a, b, rt=1e-9):
    a, b = np.asarray(a, float), np.asarray(b, float)
    if a.shape != b.shape:
        return False
    with np.errstate(all='ignore'):
        eq = (a == b) | (np.isnan(a) & np.isnan(b)) | (np.abs(a - b) <= rt * (1 + np.abs(b)))
    return bool(np.all(eq))


def run_sisdr_ternary(key):
    ms, _ = _ev()
    ridx, eidx = key['ref'], key['est']
    s = np.array(REFS[ridx], dtype=np.float64)
    digits = []
    x = eidx
    for _ in range(8):
        digits.append(x % 3 - 1)
        x //= 3
    e = np.array(digits, dtype=np.float64)
    with np.errstate(all='ignore'):
        try:
            got = ms.si_sdr(s, e)
        except Exception as ex:  # noqa
            return viol(f'si_sdr raised {ex!r}')
        want = ref_si_sdr(s, e)
    if not same_value(got, want):
        return viol(f'si_sdr({s.tolist()}, {e.tolist()}) = {got!r}, definition gives {want!r}', got, want)
    if np.isfinite(want):
        for c in SCALES:
            with np.errstate(all='ignore'):
                g1, g2 = ms.si_sdr(s * c, e), ms.si_sdr(s, e * c)
            if not same_value(g1, want, 1e-7) or not same_value(g2, want, 1e-7):
                return viol(f'si_sdr not invariant to rescaling by {c}: {g1!r}, {g2!r} vs {want!r}')
    return ok(outcome=repr(float(want)) if np.isfinite(want) else str(want), evals=1 + 2 * len(SCALES))


def run_sisdr_generic(key):
    ms, _ = _ev()
    lead, T, mix, seed = tuple(key['lead']), key['T'], key['mix'], key['seed']
    r = A.rng(seed, 'c19sisdr', lead, T, mix)
    s = r.standard_normal(lead + (T,))
    n = r.standard_normal(lead + (T,))
    e = mix * s + (1 - mix) * n
    s, e = A.relayout(s, key.get('layout', 'C')), A.relayout(e, key.get('layout', 'C'))
    s.setflags(write=False)
    e.setflags(write=False)
    try:
        got = np.asarray(ms.si_sdr(s, e))
    except Exception as ex:  # noqa
        return viol(f'si_sdr raised {ex!r}')
    if got.shape != lead:
        return viol(f'si_sdr shape {got.shape} != {lead}')
    for idx in np.ndindex(*lead):
        want = ref_si_sdr(s[idx], e[idx])
        if not same_value(got[idx], want, 1e-9):
            return viol(f'si_sdr at leading index {idx}: {got[idx]!r} vs definition {want!r}')
        one = ms.si_sdr(np.ascontiguousarray(s[idx]), np.ascontiguousarray(e[idx]))
        if not same_value(one, got[idx], 1e-12):
            return viol('si_sdr of a stack differs from the single call')
    for c in SCALES:
        g1, g2 = np.asarray(ms.si_sdr(s * c, e)), np.asarray(ms.si_sdr(s, e * c))
        if not same_value(g1, got, 1e-7) or not same_value(g2, got, 1e-7):
            return viol(f'si_sdr not invariant to rescaling by {c}')
    return ok(outcome=tol.digest(got))


def lin(db):
    return 10 ** (np.asarray(db, float) / 10)


def signals(seed, kind, shape, tag):
    r = A.rng(seed, 'c19sig', kind, shape, tag)
    if kind == 'integer':
        return r.integers(-3, 4, size=shape).astype(float)
    return r.standard_normal(shape)


def ref_output_sxr(img, noise):
    Ks, Kt, T = img.shape
    S = np.zeros((Ks, Kt))
    for i in range(Ks):
        for j in range(Kt):
            S[i, j] = float(np.mean(img[i, j] ** 2))
    Nn = np.array([float(np.mean(noise[j] ** 2)) for j in range(Kt)])
    best, best_sel = None, None
    second = None
    for sel in itertools.permutations(range(Kt), Ks):
        v = sum(S[k, sel[k]] for k in range(Ks))
        if best is None or v > best:
            second = best
            best, best_sel = v, sel
        elif second is None or v > second:
            second = v
    SS = np.array([S[k, best_sel[k]] for k in range(Ks)])
    II = np.array([sum(S[j, best_sel[k]] for j in range(Ks) if j != k) for k in range(Ks)])
    NN = np.array([Nn[best_sel[k]] for k in range(Ks)])
    with np.errstate(all='ignore'):
        sdr = 10 * np.log10(SS / (II + NN))
        sir = 10 * np.log10(SS / II)
        snr = 10 * np.log10(SS / NN)
    gap = None if second is None else (best - second) / (abs(best) + 1e-300)
    return sdr, sir, snr, best_sel, gap


def run_output_sxr(key):
    _, sx = _ev()
    Ks, Kt, kind, T, seed = key['Ks'], key['Kt'], key['kind'], key['T'], key['seed']
    img = signals(seed, kind, (Ks, Kt, T), 'img')
    # estimated outputs: a permuted, leaky mixing of the sources (competition between outputs)
    if kind == 'clean':
        img = signals(seed, 'generic', (Ks, Kt, T), 'img') * (2e-3 + np.eye(Ks, Kt)[:, :, None] * 2)
    else:
        img = img * (0.3 + np.eye(Ks, Kt)[:, :, None] * 2) if kind == 'generic' else img
    noise = signals(seed, 'generic' if kind == 'clean' else kind, (Kt, T), 'noise') * (0.3 if kind != 'clean' else 3e-3)
    if kind == 'integer':
        noise = signals(seed, kind, (Kt, T), 'noise')
    if kind == 'near_tie':
        # two outputs carry the same images up to a gain of 1 + 2e-6 (captured powers 4e-6 apart, relatively) but
        # differ by 20 dB in their noise: the selection is still the one that captures more source power
        img = signals(seed, 'generic', (Ks, Kt, T), 'img') * (0.3 + np.eye(Ks, Kt)[:, :, None] * 2)
        noise = signals(seed, 'generic', (Kt, T), 'noise') * 0.3
        img[:, Kt - 1] = img[:, 0] * (1 + 2e-6)
        noise[Kt - 1] = noise[0] * 10
    img, noise = A.relayout(img, key.get('layout', 'C')), A.relayout(noise, key.get('layout', 'C'))
    img.setflags(write=False)
    noise.setflags(write=False)
    sdr, sir, snr, sel, gap = ref_output_sxr(img, noise)
    if gap is not None and gap < 1e-9:
        from mc.core import trivial
        return trivial('tie between output selections')
    with np.errstate(all='ignore'):
        try:
            res = sx.output_sxr(img, noise, average_sources=False)
        except Exception as e:  # noqa
            return viol(f'output_sxr raised {e!r}')
    for name, got, want in (('sdr', res.sdr, sdr), ('sir', res.sir, sir), ('snr', res.snr, snr)):
        if not same_value(got, want, 1e-9):
            return viol(f'output_sxr {name} = {np.asarray(got).tolist()} but the selection maximising the captured '
                        f'source power ({sel}) gives {want.tolist()}')
    fin = np.isfinite(sdr) & np.isfinite(sir) & np.isfinite(snr)
    if fin.any():
        lhs = 1 / lin(res.sdr)[fin]
        rhs = 1 / lin(res.sir)[fin] + 1 / lin(res.snr)[fin]
        if np.abs(lhs - rhs).max() > 1e-9 * (1 + np.abs(rhs).max()):
            return viol('1/SDR != 1/SIR + 1/SNR')
        if (np.asarray(res.sdr)[fin] > np.minimum(res.sir, res.snr)[fin] + 1e-9).any():
            return viol('SDR > min(SIR, SNR)')
    with np.errstate(all='ignore'):
        avg = sx.output_sxr(img, noise, average_sources=True)
    if not same_value(avg.sdr, np.mean(res.sdr)) or not same_value(avg.sir, np.mean(res.sir)) \
            or not same_value(avg.snr, np.mean(res.snr)):
        return viol('average_sources=True is not the mean over sources')
    # order independence: all permutations of the outputs
    perms = list(itertools.permutations(range(Kt)))
    for p in perms:
        p = list(p)
        with np.errstate(all='ignore'):
            r2 = sx.output_sxr(img[:, p], noise[p], average_sources=False)
        for name in ('sdr', 'sir', 'snr'):
            if not same_value(getattr(r2, name), getattr(res, name), 1e-9):
                return viol(f'output_sxr depends on the order of the outputs (permutation {p}, {name})')
    # scalings
    for c in SCALES:
        with np.errstate(all='ignore'):
            r2 = sx.output_sxr(img * c, noise * c, average_sources=False)
            r3 = sx.output_sxr(img * c, noise, average_sources=False)
        for name in ('sdr', 'sir', 'snr'):
            if not same_value(getattr(r2, name), getattr(res, name), 1e-7):
                return viol(f'output_sxr not invariant to a common rescaling by {c} ({name})')
        if not same_value(r3.sir, res.sir, 1e-7):
            return viol(f'SIR changes when all images are scaled by {c}')
        if not same_value(r3.snr, np.asarray(res.snr) + 20 * math.log10(abs(c)), 1e-7):
            return viol(f'SNR does not shift by 20 log10|c| when the images are scaled by {c}')
    # dict forms
    for rd, pre in ((True, ''), ('out_', 'out_')):
        with np.errstate(all='ignore'):
            d = sx.output_sxr(img, noise, average_sources=False, return_dict=rd)
            # a later call (other signals, same dict form) leaves the result returned before as it was
            later = sx.output_sxr(img[:, ::-1] * 3.0, noise[::-1] * 0.5, average_sources=True, return_dict=rd)
        if later is d:
            return viol(f'output_sxr(return_dict={rd!r}) returns the same dict object in successive calls')
        if not isinstance(d, dict) or sorted(d) != sorted(pre + k for k in ('sdr', 'sir', 'snr')):
            return viol(f'output_sxr(return_dict={rd!r}) returned {type(d).__name__} '
                        f'{sorted(d) if isinstance(d, dict) else ""}, expected a dict with keys prefixed {pre!r}')
        if not same_value(d[pre + 'sdr'], res.sdr):
            return viol('dict values differ from the tuple values')
        with np.errstate(all='ignore'):
            da = sx.output_sxr(img, noise, average_sources=True, return_dict=rd)
        for nm_ in ('sdr', 'sir', 'snr'):
            if not isinstance(da, dict) or np.shape(da[pre + nm_]) != np.shape(getattr(avg, nm_)) or \
                    not same_value(da[pre + nm_], getattr(avg, nm_)):
                return viol(f'output_sxr(average_sources=True, return_dict={rd!r}): {pre + nm_} differs from the tuple '
                            f'value (shape {np.shape(da[pre + nm_]) if isinstance(da, dict) else None})')
    return ok(outcome=tol.digest(np.nan_to_num(sdr, posinf=1e300, neginf=-1e300)), evals=3 + len(perms) + 2 * len(SCALES),
              flags=['non_identity_selection'] if list(sel) != list(range(Ks)) else ['identity_selection'])


def run_input_sxr(key):
    _, sx = _ev()
    K, D, kind, T, seed = key['K'], key['D'], key['kind'], key['T'], key['seed']
    img = signals(seed, kind if kind not in ('clean', 'dominant') else 'generic', (K, D, T), 'in-img') * (1 + np.arange(K))[:, None, None]
    if kind == 'clean':
        img[1:] *= 2e-3                               # one dominant source: SIR ~ 55 dB
    if kind == 'dominant':
        # amplitude ratio of 1e6 between the strongest and the weakest source (scales 1e3 ... 1e-3)
        img = signals(seed, 'generic', (K, D, T), 'in-img') * (10.0 ** np.linspace(3.0, -3.0, K))[:, None, None]
    noise = signals(seed, kind if kind not in ('clean', 'dominant') else 'generic', (D, T), 'in-noise') * (0.5 if kind != 'clean' else 3e-3)
    if kind == 'integer':
        noise = signals(seed, kind, (D, T), 'in-noise')
        if not noise.any():
            noise[0, 0] = 1
    img, noise = A.relayout(img, key.get('layout', 'C')), A.relayout(noise, key.get('layout', 'C'))
    img.setflags(write=False)
    noise.setflags(write=False)
    S = np.array([[float(np.mean(img[k, d] ** 2)) for d in range(D)] for k in range(K)])
    Nn = np.array([float(np.mean(noise[d] ** 2)) for d in range(D)])
    I = np.array([[sum(S[j, d] for j in range(K) if j != k) for d in range(D)] for k in range(K)])
    outs = []
    for avg_s in (True, False):
        for avg_c in (True, False):
            with np.errstate(all='ignore'):
                try:
                    res = sx.input_sxr(img, noise, average_sources=avg_s, average_channels=avg_c)
                except Exception as e:  # noqa
                    return viol(f'input_sxr raised {e!r}')
                s_, i_, n_ = (S, I, np.broadcast_to(Nn, (K, D)))
                if avg_c:
                    s_, i_, n_ = S.mean(-1), I.mean(-1), np.full(K, Nn.mean())
                sdr, sir, snr = (10 * np.log10(s_ / (i_ + n_)), 10 * np.log10(s_ / i_), 10 * np.log10(s_ / n_))
                if avg_s:
                    sdr, sir, snr = sdr.mean(0), sir.mean(0), snr.mean(0)
            for name, got, want in (('sdr', res.sdr, sdr), ('sir', res.sir, sir), ('snr', res.snr, snr)):
                if not same_value(got, want, 1e-9):
                    return viol(f'input_sxr {name} (average_sources={avg_s}, average_channels={avg_c}) = '
                                f'{np.asarray(got).tolist()}, definition gives {np.asarray(want).tolist()}')
            if not avg_s:
                fin = np.isfinite(sdr) & np.isfinite(sir) & np.isfinite(snr)
                if fin.any():
                    lhs = 1 / lin(res.sdr)[fin]
                    rhs = 1 / lin(res.sir)[fin] + 1 / lin(res.snr)[fin]
                    if np.abs(lhs - rhs).max() > 1e-9 * (1 + np.abs(rhs).max()):
                        return viol('input_sxr: 1/SDR != 1/SIR + 1/SNR')
                for c in SCALES:
                    with np.errstate(all='ignore'):
                        r2 = sx.input_sxr(img * c, noise * c, average_sources=False, average_channels=avg_c)
                        r3 = sx.input_sxr(img * c, noise, average_sources=False, average_channels=avg_c)
                    if not (same_value(r2.sdr, res.sdr, 1e-7) and same_value(r2.sir, res.sir, 1e-7)
                            and same_value(r2.snr, res.snr, 1e-7)):
                        return viol(f'input_sxr not invariant to a common rescaling by {c}')
                    if not same_value(r3.sir, res.sir, 1e-7) or \
                            not same_value(r3.snr, np.asarray(res.snr) + 20 * math.log10(abs(c)), 1e-7):
                        return viol(f'input_sxr: image scaling by {c} must shift SNR by 20 log10|c| and keep SIR')
            outs.append(tol.digest(np.nan_to_num(np.asarray(sdr, float), posinf=1e300, neginf=-1e300)))
    for rd, pre in ((True, ''), ('input_', 'input_')):
        with np.errstate(all='ignore'):
            d = sx.input_sxr(img, noise, return_dict=rd)
            later = sx.input_sxr(img * 2.0, noise * 7.0, average_sources=False, return_dict=rd)
            plain = sx.input_sxr(img, noise)
        if not isinstance(d, dict) or sorted(d) != sorted(pre + k for k in ('sdr', 'sir', 'snr')):
            return viol(f'input_sxr(return_dict={rd!r}) keys {sorted(d) if isinstance(d, dict) else type(d)}')
        if later is d or not all(same_value(d[pre + nm_], getattr(plain, nm_)) for nm_ in ('sdr', 'sir', 'snr')):
            return viol(f'input_sxr(return_dict={rd!r}): the returned dict changed when input_sxr was called again '
                        f'with other signals')
    return ok(outcome=str(outs), evals=4 + 4 * len(SCALES))


def run_snr(key):
    _, sx = _ev()
    shape, target, axis, seed = tuple(key['shape']), key['target'], key['axis'], key['seed']
    X = signals(seed, 'generic', shape, 'snrX')
    N0 = signals(seed, 'generic', shape, 'snrN') * 3
    X.setflags(write=False)
    N = N0.copy()
    try:
        out = sx.set_snr(X, N, target, axis=axis, inplace=True)
    except Exception as e:  # noqa
        return viol(f'set_snr(inplace=True) raised {e!r}')
    if out is not None:
        return viol('set_snr(inplace=True) returned a value')
    got = sx.get_snr(X, N, axis=axis)
    if not same_value(got, np.full(np.shape(got), target), 1e-9):
        return viol(f'get_snr(set_snr(..., {target})) = {np.asarray(got).tolist()}')
    # a sequence of requests on the same noise buffer: every request is met, however close it is to the level
    # the noise already has (steps of 1e-3 ... 1e-7 dB, and the same level again)
    for step in (1e-3, -1e-4, 1e-5, -3e-7, 0.0):
        want = target + step
        try:
            sx.set_snr(X, N, want, axis=axis, inplace=True)
            X6, N6 = sx.set_snr(X, N, want + step, axis=axis, inplace=False)
        except Exception as e:  # noqa
            return viol(f'set_snr raised {e!r} in a sequence of requests')
        for what, got, w_ in (('inplace', sx.get_snr(X, N, axis=axis), want),
                              ('copy', sx.get_snr(X6, N6, axis=axis), want + step)):
            if not same_value(got, np.full(np.shape(got), w_), 1e-10):
                return viol(f'set_snr ({what}) to {w_!r} dB on noise that already was within {abs(step):.0e} dB of it: '
                            f'get_snr = {np.asarray(got).ravel()[:3].tolist()}')
    N2 = N0.copy()
    N2.setflags(write=False)
    try:
        X3, N3 = sx.set_snr(X, N2, target, axis=axis, inplace=False)
    except Exception as e:  # noqa
        return viol(f'set_snr(inplace=False) raised {e!r} (read-only noise)')
    if not np.array_equal(N2, N0):
        return viol('set_snr(inplace=False) modified the noise')
    got = sx.get_snr(X3, N3, axis=axis)
    if not same_value(got, np.full(np.shape(got), target), 1e-9):
        return viol(f'get_snr after set_snr(inplace=False) = {np.asarray(got).tolist()}')
    # the current SNR handed over by the caller (as documented) gives the same result
    try:
        cur = sx.get_snr(X, N0, axis=axis, keepdims=True)
        X5, N5 = sx.set_snr(X, N0.copy(), target, current_snr=cur, axis=axis, inplace=False)
    except Exception as e:  # noqa
        return viol(f'set_snr(current_snr=...) raised {e!r}')
    got = sx.get_snr(X5, N5, axis=axis)
    if not same_value(got, np.full(np.shape(got), target), 1e-9):
        return viol(f'get_snr after set_snr(current_snr=get_snr(...)) = {np.asarray(got).tolist()} (requested {target})')
    # target and noise of different sizes along the reduced axes (noise longer than the target, more channels)
    if axis is None or axis == -1 or axis == len(shape) - 1:
        Nl = signals(seed, 'generic', tuple(shape[:-1]) + (3 * shape[-1] + 1,), 'snrNlong') * 2
        try:
            X4, N4 = sx.set_snr(X, Nl, target, axis=axis, inplace=False)
        except Exception as e:  # noqa
            return viol(f'set_snr raised {e!r} for a noise signal longer than the target')
        got = sx.get_snr(X4, N4, axis=axis)
        if not same_value(got, np.full(np.shape(got), target), 1e-9):
            return viol(f'get_snr after set_snr with a longer noise signal = {np.asarray(got).tolist()} '
                        f'(requested {target})')
    return ok(outcome=f'{target}:{axis}')


def subchecks(tier, seed):
    seeds_ = [seed] if tier != 'thorough' else [seed] + [seed * 1000 + v for v in range(1, 6)]
    thorough = tier == 'thorough'
    subs = []

    def tern_cases():
        for ridx in range(len(REFS)):
            for e in range(3 ** 8):
                yield (ridx, e)
    subs.append(Sub('si_sdr_ternary', ('ref', 'est'), tern_cases, run_sisdr_ternary,
                    bound=dict(estimates='{-1,0,1}^8', references=[list(r) for r in REFS])))

    def gen_cases():
        for seed in seeds_:
            for lead in ((), (2,), (2, 3), (3, 1), (1, 3), (2, 1, 2)):
                for T in (8, 64, 4096):
                    if 1 in lead and T == 4096:
                        continue
                    for mix in (0.0, 0.1, 0.5, 0.9, 1.0):
                        yield (lead, T, mix, 'C', seed)
                        if lead and T == 64:
                            for lay in A.LAYOUTS[1:]:
                                yield (lead, T, mix, lay, seed)
    subs.append(Sub('si_sdr_generic', ('lead', 'T', 'mix', 'layout', 'seed'), gen_cases, run_sisdr_generic))

    def out_cases():
        for seed in seeds_:
            for Ks in (1, 2, 3, 4):
                for Kt in (1, 2, 3, 4, 5):
                    if Kt < Ks:
                        continue
                    for kind in ('integer', 'generic', 'clean', 'near_tie'):
                        if kind == 'near_tie' and Kt < 2:
                            continue
                        for T in (8, 64) + ((4096,) if thorough else ()):
                            for v in range(3 if not thorough else 6):
                                yield (Ks, Kt, kind, T, 'C', seed * 100 + v)
                            if kind == 'generic' and T == 8:
                                for lay in A.LAYOUTS[1:]:
                                    yield (Ks, Kt, kind, T, lay, seed * 100)
    subs.append(Sub('output_sxr', ('Ks', 'Kt', 'kind', 'T', 'layout', 'seed'), out_cases, run_output_sxr,
                    require_flags=('non_identity_selection',)))

    def in_cases():
        for seed in seeds_:
            for K in (1, 2, 3, 4):
                for D in (1, 2, 3, 5):
                    for kind in ('integer', 'generic', 'clean', 'dominant'):
                        for T in (8, 64):
                            if kind == 'dominant' and K == 1:
                                continue
                            yield (K, D, kind, T, 'C', seed)
                            if kind == 'generic' and T == 8:
                                for lay in A.LAYOUTS[1:]:
                                    yield (K, D, kind, T, lay, seed)
    subs.append(Sub('input_sxr', ('K', 'D', 'kind', 'T', 'layout', 'seed'), in_cases, run_input_sxr))

    def snr_cases():
        for seed in seeds_:
            for shape in ((64,), (3, 64), (2, 3, 16), (1500,), (2, 2501)):
                for target in (-20.0, 0.0, 7.5, 40.0):
                    for axis in (None, -1):
                        yield (shape, target, axis, seed)
    subs.append(Sub('set_get_snr', ('shape', 'target', 'axis', 'seed'), snr_cases, run_snr))
    return subs
