"""C09 — fitted parameters stay inside their documented domain.

The degenerate half of the configuration space of C01 (zero / duplicated / collinear
/ too few frames, extreme scales, hard one-hot starts) x trainer options with <= d
deviations; every intermediate model seen by the iteration hook is checked with
predicates (no expected values); single-distribution trainers on the same data."""
import itertools

import numpy as np

from mc.core import Sub, ok, trivial, viol, raised_ok
from mc import alphabet as A
from mc import impl
from mc import scenarios as S
from mc import tol
from mc.props import c01
from mc.refmodels import mixtures as M

LEVEL = 'exploration'
RULE = ('every configuration with <= d non-default options restricted to degenerate data kinds and hard/soft '
        'starts, full product model x data kind x start x iterations; every traced intermediate model is '
        'checked against the domain predicates')
ASSUMPTIONS = ['predicates only (no expected values); a raised exception is allowed and counted']


def _cholesky_ok(c, degenerate=False):
    """positive definite; a numerically singular matrix (a class collapsed onto <= D points) has a
    smallest eigenvalue of +-1e-17, which is rounding noise either way: it must then be positive
    semidefinite up to 1e-10 relative."""
    try:
        np.linalg.cholesky(c)
        return True
    except np.linalg.LinAlgError:
        w = np.linalg.eigvalsh((c + c.T) / 2)
        return bool(np.isfinite(w).all() and w.min() >= -1e-10 * max(abs(w.max()), 1e-300))


def check_model(model, m, aff_shape, opts, eps, skip_frames=(), kmin=1e-10, kmax=500.0,
                bingham_max=np.inf, floor=1e-10, single=False, broadcast_lead=False, degenerate=False):
    K, N = aff_shape[-2:]
    lead = aff_shape[:-2]
    f = M.fields(model, m)
    for name, arr in f.items():
        if not np.isfinite(np.asarray(arr)).all():
            return f'{name}: non-finite values'
    # weights
    wca = opts.get('weight_constant_axis', (-1,))
    want = M.expected_weight_shape(model, wca, aff_shape)
    w = np.asarray(m.weight)
    if w.shape != tuple(want) and not (
            broadcast_lead and len(w.shape) == len(want)
            and all(a == b or (a == 1 and i < len(lead)) for i, (a, b) in enumerate(zip(w.shape, want)))):
        return f'weight shape {w.shape} != documented {tuple(want)}'
    try:
        pi = np.array(M.weight_full(model, m, aff_shape), dtype=float)
    except Exception as e:  # noqa
        return f'stored weight cannot be placed: {e!r}'
    if (pi < 0).any():
        return 'negative mixture weight'
    s = pi.sum(-2)
    if len(skip_frames):
        s = np.delete(s, list(skip_frames), axis=-1)
    slack = (1e-5 if single else 1e-9) + K * eps * 2
    if s.size and np.abs(s - 1).max() > slack:
        return f'weights sum to {s.flat[np.argmax(np.abs(s - 1))]!r} over classes'
    if model in ('cacgmm', 'gcacgmm', 'vmfcacgmm'):
        U = np.asarray(m.cacg.covariance_eigenvectors)
        lam = np.asarray(m.cacg.covariance_eigenvalues)
        D = U.shape[-1]
        if U.shape != lead + (K, D, D) or lam.shape != lead + (K, D):
            return f'cACG parameter shapes {U.shape}, {lam.shape}'
        g = np.einsum('...ji,...jk->...ik', U.conj(), U)
        if np.abs(g - np.eye(D)).max() > (1e-4 if single else 1e-8):
            return 'cACG eigenvectors not unitary'
        norm = opts.get('covariance_norm', 'eigenvalue')
        lmax = lam.max(-1)
        if norm == 'eigenvalue':
            if lam.min() < floor * (1 - 1e-6) or lam.max() > 1 + 1e-6:
                return f'cACG eigenvalues outside [floor, 1]: min {lam.min()!r} max {lam.max()!r}'
            zero_scatter = np.all(lam <= floor * (1 + 1e-6), axis=-1)
            if (np.abs(lmax - 1) > 1e-6)[~zero_scatter].any():
                return 'cACG maximal eigenvalue is not 1 under eigenvalue normalisation'
        else:
            if (lam <= 0).any():
                return f'cACG eigenvalue {lam.min()!r} <= 0: covariance not positive definite'
            if (lam < floor * lmax[..., None] * (1 - 1e-6)).any():
                return 'cACG eigenvalue below the relative floor'
            if norm == 'trace':
                tr = lam.sum(-1)
                okz = lmax > floor * (1 + 1e-6)   # zero scatter: every eigenvalue sits at the floor
                if (np.abs(tr - 1) > D * floor * 10 + 1e-6)[okz].any():
                    return f'cACG trace {tr.flat[np.argmax(np.abs(tr - 1))]!r} != 1 under trace normalisation'
    if model == 'cwmm':
        mode = np.asarray(m.complex_watson.mode)
        k = np.asarray(m.complex_watson.concentration)
        nrm = np.linalg.norm(mode, axis=-1)
        if (np.abs(nrm - 1) > 1e-6).any():
            return f'Watson mode norm {nrm.flat[np.argmax(np.abs(nrm - 1))]!r}'
        if (k < 0).any() or (k > kmax * (1 + 1e-12)).any():
            return f'Watson concentration outside [0, {kmax}]: {k.min()!r}..{k.max()!r}'
    if model in ('vmfmm', 'vmfcacgmm'):
        mean = np.asarray(m.vmf.mean)
        k = np.asarray(m.vmf.concentration)
        nrm = np.linalg.norm(mean, axis=-1)
        bad = (np.abs(nrm - 1) > 1e-6) & (nrm != 0)
        if bad.any():
            return f'vMF mean norm {nrm[bad].flat[0]!r}'
        if (k < kmin * (1 - 1e-12)).any() or (k > kmax * (1 + 1e-12)).any():
            return f'vMF concentration outside [{kmin}, {kmax}]: {k.min()!r}..{k.max()!r}'
    if model in ('gmm', 'gcacgmm'):
        cov = np.asarray(m.gaussian.covariance)
        t = type(m.gaussian).__name__
        if t == 'Gaussian':
            if np.abs(cov - np.swapaxes(cov, -1, -2)).max() > 1e-9 * (1 + np.abs(cov).max()):
                return 'Gaussian covariance not symmetric'
            for idx in np.ndindex(*cov.shape[:-2]):
                if not _cholesky_ok(cov[idx], degenerate):
                    return 'Gaussian covariance not positive definite'
        elif (cov <= 0).any():
            return f'{t} variance {cov.min()!r} <= 0'
    if model == 'cbmm':
        lam = np.asarray(m.complex_bingham.covariance_eigenvalues)
        if (lam > 1e-7).any() or (np.abs(lam.max(-1)) > 1e-7).any():
            return f'Bingham eigenvalues must be <= 0 with maximum 0: {lam.max()!r}'
        if np.isfinite(bingham_max) and (lam < -bingham_max * (1 + 1e-6) - 1e-6).any():
            return f'Bingham eigenvalue {lam.min()!r} < -max_concentration'
    return None


def run_config(key):
    from pb_bss import _verif
    p = dict(key)
    seed = p.pop('seed')
    p['lead'] = tuple(p['lead'])
    p['streamw'] = tuple(p['streamw'])
    if isinstance(p['wca'], list):
        p['wca'] = tuple(p['wca'])
    c = c01.build(p, seed)
    model, K, N, lead = c['model'], c['K'], c['N'], c['lead']
    if c['empty_class']:
        return trivial('start has a class without mass (outside the precondition)')
    if c['rng_seed'] is not None:
        np.random.seed(c['rng_seed'])
    trace = []
    _verif.clear()
    _verif.register(lambda **kw: trace.append(kw['model']))
    exc = None
    tr_kw = {}
    bmax = np.inf
    if model == 'cbmm' and p['D'] == 3 and p['norm'] == 'trace':
        pass
    try:
        M.fit(model, c['data'], c['init'], p['iterations'], trainer_kw=tr_kw, **c['opts'])
    except Exception as e:  # noqa
        exc = e
    finally:
        _verif.clear()
    shape = lead + (K, N)
    for i, m in enumerate(trace):
        bad = check_model(model, m, shape, c['opts'], c['eps'], skip_frames=c['skip'],
                          single=c['single'], degenerate=c['degenerate'],
                          broadcast_lead=(p['start'] == 'soft_singleton' and i == 0))
        if bad:
            return viol(f'{model} model after iteration {i}: {bad}')
    if exc is not None:
        if c['degenerate'] or not trace or 'ill-defined empirical covariance' in str(exc):
            # explicit exception: allowed (the Gaussian covariance guard also fires when EM collapses a
            # class on regular data)
            return raised_ok(exc, evals=len(trace))
        return viol(f'{model}: fit raised on regular data after {len(trace)} iterations: {exc!r}')
    return ok(outcome=tol.digest(M.fields(model, trace[-1])[sorted(M.fields(model, trace[-1]))[0]]),
              evals=len(trace))


def run_single(key):
    d = impl.dist()
    fam, D, N, lead, kind, salk, seed = (key[k] for k in ('family', 'D', 'N', 'lead', 'data', 'sal', 'seed'))
    lead = tuple(lead)
    cplx = fam in ('cgauss', 'watson', 'cacg') or fam.startswith('bingham')
    offset = None
    if kind.startswith('offset'):
        # regular real data far away from the origin (common offset 1e4 / 1e6 times the spread)
        offset = 10.0 ** int(kind[len('offset'):])
        kind = 'generic'
    y = S.make_observation(seed, lead, N, D, kind, cplx, ('c09single', fam))
    if offset is not None:
        r = A.rng(seed, 'c09offset', fam, D)
        y = y + offset * (1.0 + r.uniform(0, 1, D))
    N = y.shape[-2]
    sal = S.make_saliency(lead, N, salk)
    if sal is not None and (sal.sum(-1) <= 0).any():
        return trivial('saliency without mass (outside the precondition)')
    y.setflags(write=False)
    try:
        if fam.startswith('gauss'):
            ct = fam.split('_')[1]
            m = d.GaussianTrainer().fit(y, saliency=sal, covariance_type=ct)
            cov = np.asarray(m.covariance)
            if not (np.isfinite(cov).all() and np.isfinite(m.mean).all()):
                return viol('Gaussian parameters non-finite')
            if ct == 'full':
                if np.abs(cov - np.swapaxes(cov, -1, -2)).max() > 1e-9 * (1 + np.abs(cov).max()):
                    return viol(f'returned Gaussian covariance not symmetric '
                                f'({np.abs(cov - np.swapaxes(cov, -1, -2)).max():.2e} of {np.abs(cov).max():.2e})')
                for idx in np.ndindex(*cov.shape[:-2]):
                    if not _cholesky_ok(cov[idx], kind != 'generic' or salk == 'one_zero'):
                        return viol('returned Gaussian covariance not positive definite')
            elif (cov <= 0).any():
                return viol(f'returned variance {cov.min()!r} <= 0')
        elif fam == 'cgauss':
            m = d.ComplexCircularSymmetricGaussianTrainer().fit(y, saliency=sal)
            cov = np.asarray(m.covariance)
            if not np.isfinite(cov).all():
                return viol('non-finite covariance')
            if np.abs(cov - np.swapaxes(cov.conj(), -1, -2)).max() > 1e-9 * (1 + np.abs(cov).max()):
                return viol('covariance not Hermitian')
            if np.linalg.eigvalsh((cov + np.swapaxes(cov.conj(), -1, -2)) / 2).min() < -1e-9 * (1 + np.abs(cov).max()):
                return viol('covariance not positive semidefinite')
        elif fam == 'watson':
            m = d.ComplexWatsonTrainer().fit(y, saliency=sal)
            k = np.asarray(m.concentration)
            nrm = np.linalg.norm(np.asarray(m.mode), axis=-1)
            if not (np.isfinite(k).all() and np.isfinite(nrm).all()):
                return viol('Watson parameters non-finite')
            if (np.abs(nrm - 1) > 1e-6).any():
                return viol(f'Watson mode norm {nrm.min()!r}')
            if (k < 0).any() or (k > 500).any():
                return viol(f'Watson concentration {k.min()!r}..{k.max()!r}')
        elif fam == 'vmf':
            m = d.VonMisesFisherTrainer().fit(y, saliency=sal)
            k = np.asarray(m.concentration)
            nrm = np.linalg.norm(np.asarray(m.mean), axis=-1)
            if not (np.isfinite(k).all() and np.isfinite(nrm).all()):
                return viol('vMF parameters non-finite')
            if ((np.abs(nrm - 1) > 1e-6) & (nrm != 0)).any():
                return viol(f'vMF mean norm {nrm!r}')
            if (k < 1e-10 * (1 - 1e-12)).any() or (k > 500).any():
                return viol(f'vMF concentration {k.min()!r}..{k.max()!r}')
        elif fam == 'cacg':
            if sal is not None:
                return trivial('cACG trainer documents saliency as not implemented')
            m = d.ComplexAngularCentralGaussianTrainer().fit(y, iterations=key['its'])
            lam = np.asarray(m.covariance_eigenvalues)
            U = np.asarray(m.covariance_eigenvectors)
            if not (np.isfinite(lam).all() and np.isfinite(U).all()):
                return viol('cACG parameters non-finite')
            if lam.min() < 1e-10 * (1 - 1e-6) or lam.max() > 1 + 1e-6:
                return viol(f'cACG eigenvalues outside [floor, 1]: {lam.min()!r}, {lam.max()!r}')
            # a caller-chosen floor is honoured as well
            for fl in (1e-3, 0.2):
                m2 = d.ComplexAngularCentralGaussianTrainer().fit(y, iterations=key['its'], eigenvalue_floor=fl)
                lam2 = np.asarray(m2.covariance_eigenvalues)
                if not np.isfinite(lam2).all() or lam2.min() < fl * (1 - 1e-6) or lam2.max() > 1 + 1e-6:
                    return viol(f'cACG eigenvalues outside [floor, 1] for eigenvalue_floor={fl}: '
                                f'{lam2.min()!r}, {lam2.max()!r}')
            g = np.einsum('...ji,...jk->...ik', U.conj(), U)
            if np.abs(g - np.eye(D)).max() > 1e-8:
                return viol('cACG eigenvectors not unitary')
        elif fam.startswith('bingham'):
            kmax = np.inf if fam == 'bingham' else float(fam[len('bingham_max'):])
            if kmax != np.inf and kind == 'generic':
                # concentrated data: the clip to -max_concentration binds
                y = np.array(y)
                y = y[..., :1, :] + 0.03 * y
            m = d.ComplexBinghamTrainer(max_concentration=kmax).fit(y, saliency=sal)
            lam = np.asarray(m.covariance_eigenvalues)
            if not np.isfinite(lam).all():
                return viol('Bingham eigenvalues non-finite')
            # duplicate eigenvalues are spread by the documented eps of 1e-8: the maximum may be 1e-8 off 0
            if (lam > 1e-7).any() or (np.abs(lam.max(-1)) > 1e-7).any():
                return viol(f'Bingham eigenvalues {lam!r}')
            if (lam < -kmax * (1 + 1e-6) - 1e-6).any():
                return viol(f'Bingham eigenvalue {lam.min()!r} below -max_concentration = {-kmax}')
    except Exception as e:  # noqa
        if kind == 'generic' and N > D + 1 and salk != 'one_zero':
            return viol(f'{fam} trainer raised on regular data: {e!r}')
        return raised_ok(e)
    return ok(outcome=f'{fam}:{kind}:{salk}')


def run_tying_forms(key):
    """the tied axes given in every equivalent form (negative / positive indices, tuple / list, Python / NumPy
    integers, a bare integer for a single axis): same weights, which sum to one over the classes."""
    from pb_bss.distribution.mixture_model_utils import estimate_mixture_weight
    lead, K, N, axes, salk, seed = tuple(key['lead']), key['K'], key['N'], tuple(key['axes']), key['sal'], key['seed']
    aff = A.soft_affiliation(seed, lead, K, N, 'c09tying')
    sal = S.make_saliency(lead, N, salk)
    nd = aff.ndim
    aff.setflags(write=False)
    try:
        base = np.asarray(estimate_mixture_weight(aff, sal, axes))
    except Exception as e:  # noqa
        return viol(f'estimate_mixture_weight raised {e!r} for weight_constant_axis={axes}')
    full = np.broadcast_to(base, aff.shape)
    if (full < 0).any() or np.abs(full.sum(-2) - 1).max() > 1e-9:
        return viol(f'weights for weight_constant_axis={axes} sum to {full.sum(-2).flat[0]!r} over the classes')
    forms = [('positive indices', tuple(a % nd for a in axes)), ('list', list(axes)),
             ('numpy integers', tuple(np.int64(a) for a in axes)),
             ('positive numpy integers in a list', [np.int32(a % nd) for a in axes])]
    if len(axes) > 1:
        forms.append(('mixed signs', tuple(a % nd if i % 2 else a for i, a in enumerate(axes))))
        forms.append(('reversed order', tuple(reversed(axes))))
    if len(axes) == 1:
        forms += [('bare int', int(axes[0])), ('bare numpy int', np.int64(axes[0])), ('bare positive int', axes[0] % nd)]
    n = 0
    for name, form in forms:
        try:
            got = np.asarray(estimate_mixture_weight(aff, sal, form))
        except Exception as e:  # noqa
            return viol(f'estimate_mixture_weight raised {e!r} for weight_constant_axis={form!r} ({name})')
        try:
            g = np.broadcast_to(got, aff.shape)
        except ValueError:
            return viol(f'weight shape {got.shape} for weight_constant_axis={form!r} ({name}) does not broadcast')
        bad = tol.mismatch(g, full, tol.TIGHT, what=f'weights for weight_constant_axis={form!r} ({name}) vs {axes}')
        if bad:
            return viol(bad)
        n += 1
    return ok(outcome=tol.digest(full), evals=n + 1)


BOUND_FAMILIES = ('watson', 'cwmm', 'vmf', 'vmfmm', 'vmfcacgmm', 'bingham', 'cbmm')
BOUNDS = {'watson': (500.0, 50.0, 5.0), 'cwmm': (500.0, 50.0, 5.0),
          'vmf': ((1e-10, 500.0), (2.0, 5.0), (0.5, 50.0)), 'vmfmm': ((1e-10, 500.0), (2.0, 5.0), (0.5, 50.0)),
          'vmfcacgmm': ((1e-10, 500.0), (2.0, 5.0), (0.5, 50.0)),
          'bingham': (500.0, 50.0, 5.0), 'cbmm': (500.0, 50.0, 5.0)}


def run_bounds(key):
    """trainers with different concentration bounds used one after the other in one process (every order):
    each fitted concentration lies inside the bounds of the trainer that produced it - on concentrated data,
    where the upper bound binds, and on nearly uniform data, where the lower one does."""
    d = impl.dist()
    fam, D, seq, seed = key['family'], key['D'], key['bounds'], key['seed']
    cplx = fam not in ('vmf', 'vmfmm', 'vmfcacgmm')
    N = 4 * D + 4
    r = A.rng(seed, 'c09bounds', fam, D)
    proto = A.unit_vectors(seed, 2, D, 'c09bounds', fam, complex_=cplx, max_cos=0.3)
    noise = A.cnormal(r, (N, D)) if cplx else r.standard_normal((N, D))
    lab = np.arange(N) % 2
    tight = proto[lab] + 0.01 * noise           # two tight clusters: ML concentration of the order 1e4
    loose = noise / np.linalg.norm(noise, axis=-1, keepdims=True)
    init = A.partition_affiliation(lab, 2, blur=0.1)
    n = 0
    for b in seq:
        for name, y in (('concentrated', tight), ('uniform', loose)):
            try:
                if fam == 'watson':
                    k = d.ComplexWatsonTrainer(max_concentration=b).fit(y[lab == 0]).concentration
                    lo, hi = 0.0, b
                elif fam == 'cwmm':
                    k = d.CWMMTrainer(max_concentration=b).fit(y, initialization=init, iterations=2) \
                        .complex_watson.concentration
                    lo, hi = 0.0, b
                elif fam == 'vmf':
                    k = d.VonMisesFisherTrainer().fit(y[lab == 0], min_concentration=b[0],
                                                      max_concentration=b[1]).concentration
                    lo, hi = b
                elif fam == 'vmfmm':
                    k = d.VMFMMTrainer().fit(y, initialization=init, iterations=2, min_concentration=b[0],
                                             max_concentration=b[1]).vmf.concentration
                    lo, hi = b
                elif fam == 'vmfcacgmm':
                    obs = A.cnormal(A.rng(seed, 'c09bounds-obs', D), (1, N, 3))
                    k = d.VMFCACGMMTrainer().fit(obs, y[None], initialization=init[None], iterations=2,
                                                 min_concentration=b[0], max_concentration=b[1]).vmf.concentration
                    lo, hi = b
                elif fam == 'bingham':
                    k = -np.asarray(d.ComplexBinghamTrainer(max_concentration=b).fit(y[lab == 0])
                                    .covariance_eigenvalues)
                    lo, hi = -1e-7, b
                else:
                    k = -np.asarray(d.CBMMTrainer(max_concentration=b).fit(y, initialization=init, iterations=3)
                                    .complex_bingham.covariance_eigenvalues)
                    lo, hi = -1e-7, b
            except Exception as e:  # noqa
                if fam in ('bingham', 'cbmm') and isinstance(e, (AssertionError, ValueError)) and name == 'uniform':
                    continue        # rank-deficient scatter guard of the Bingham solver (judged elsewhere)
                return viol(f'{fam} with bounds {b} raised on {name} data: {e!r}')
            k = np.asarray(k, dtype=float)
            if not np.isfinite(k).all():
                return viol(f'{fam} with bounds {b} after {list(seq)}: non-finite concentration on {name} data')
            if (k < lo * (1 - 1e-9) - 1e-12).any() or (k > hi * (1 + 1e-6) + 1e-6).any():
                return viol(f'{fam} trainer with bounds {b} (used in the sequence {list(seq)}) returned a '
                            f'concentration of {k.min()!r}..{k.max()!r} on {name} data')
            n += 1
    if n == 0:
        return trivial('every fit raised')
    return ok(outcome=f'{fam}:{seq}', evals=n)


def subchecks(tier, seed):
    thorough = tier == 'thorough'
    d = 3 if thorough else 2
    SP = c01.SPACE
    names = SP.names + ['seed']
    kinds = S.DEGENERATE_KINDS

    def cases():
        seen = set()
        for kind in kinds:
            for start in ('soft', 'onehot'):
                for p in SP.deviations(d - 1, fixed=dict(data=kind, start=start), core=('model',)):
                    t = SP.tup(p) + (seed,)
                    if t not in seen:
                        seen.add(t)
                        yield t
        for p in SP.full(('model', 'data', 'start', 'iterations', 'norm')):
            t = SP.tup(p) + (seed,)
            if t not in seen:
                seen.add(t)
                yield t
        # regular data too: every option pair (guards must not fire wrongly)
        for p in SP.deviations(d, core=('model',), fixed=dict(iterations=5)):
            t = SP.tup(p) + (seed,)
            if t not in seen:
                seen.add(t)
                yield t
    subs = [Sub('mixture_models', names, cases, run_config,
                bound=dict(deviations=d, data_kinds=list(kinds) + ['generic'],
                           note='every traced intermediate model is checked'),
                min_nontrivial=500)]

    def single_cases():
        for fam in ('gauss_full', 'gauss_diagonal', 'gauss_spherical', 'cgauss', 'watson', 'vmf',
                    'cacg', 'bingham', 'bingham_max5', 'bingham_max50'):
            for D in ((2, 3) if fam.startswith('bingham') else (2, 3, 5)):
                for N in (D + 2, 12):
                    for lead in ((), (2,)):
                        for kind in ('generic',) + tuple(kinds) + (('offset4', 'offset6', 'offset8') if fam.startswith('gauss')
                                                                   else ()):
                            for salk in ('none', 'graded', 'one_zero'):
                                for its in ((1, 10) if fam == 'cacg' else (1,)):
                                    yield (fam, D, N, lead, kind, salk, its, seed)
    subs.append(Sub('single_trainers', ('family', 'D', 'N', 'lead', 'data', 'sal', 'its', 'seed'),
                    single_cases, run_single))

    def tying_cases():
        for lead in ((), (3,), (2, 3)):
            nd = len(lead) + 2
            cand = [a for a in range(-nd, 0)]
            for r_ in (1, 2, 3):
                for axes in itertools.combinations(cand, r_):
                    for salk in ('none', 'graded'):
                        yield (lead, 3, 4, axes, salk, seed)
    subs.append(Sub('weight_tying_argument_forms', ('lead', 'K', 'N', 'axes', 'sal', 'seed'), tying_cases,
                    run_tying_forms))

    def bound_cases():
        for fam in BOUND_FAMILIES:
            for D in (2, 3) + ((4, 5) if fam in ('bingham', 'cbmm') else ()):
                for seq in itertools.permutations(BOUNDS[fam], 2):
                    yield (fam, D, seq, seed)
                for seq in itertools.permutations(BOUNDS[fam], 3):
                    yield (fam, D, seq, seed)
    subs.append(Sub('concentration_bounds_in_sequence', ('family', 'D', 'bounds', 'seed'), bound_cases, run_bounds,
                    bound=dict(bounds={k: [list(b) if isinstance(b, tuple) else b for b in v]
                                       for k, v in BOUNDS.items()},
                               note='every ordered pair and triple of bounds, trainers used one after the other '
                                    'in one process')))
    return subs
