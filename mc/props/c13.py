"""C13 — beamforming helpers agree with their primitives and act per leading index.

All wrapper names x '+ban' x reference channels x D x F x extra leading axes; every
assignment of {regular, rank-deficient, zero} to F=4 bins for the singular clause;
phase_correction per leading index."""
import itertools

import numpy as np

from mc.core import Sub, ok, trivial, viol
from mc import alphabet as A
from mc import tol

LEVEL = 'exploration'
RULE = ('all 13 core names x {"" , "+ban"} x reference {default, each} / atf_kwargs x D{2,3,5} x F{1,2,3,5,32} x '
        'extra leading axes {0,1,2}; all 81 singular patterns of F=4 bins x {noise, target, both}; '
        'phase_correction on all leading shapes')
ASSUMPTIONS = ['composition written out with the public primitives of pb_bss.extraction.beamformer',
               'WMWF with mu=0 on an all-zero bin is 0/0 by the documented formula: recorded, not judged']

CORE = ('pca', 'pca+mvdr', 'scaled_gev_atf+mvdr', 'mvdr_souden', 'rank1_pca+mvdr_souden',
        'rank1_gev+mvdr_souden', 'gev', 'rank1_pca+gev', 'rank1_gev+gev', 'wmwf', 'rank1_pca+wmwf',
        'rank1_gev+wmwf', 'ch1')


def _bf():
    from pb_bss.extraction import beamformer
    return beamformer


def _bw():
    from pb_bss.extraction import beamformer_wrapper
    return beamformer_wrapper


def psds(seed, lead, F, D, tag=''):
    shape = tuple(lead) + (F,)
    Pxx = np.zeros(shape + (D, D), complex)
    Pnn = np.zeros(shape + (D, D), complex)
    for idx in np.ndindex(*shape):
        r = A.rng(seed, 'c13', idx, D, tag)
        a = A.cnormal(r, (D,))
        b = A.cnormal(r, (D,))
        Pxx[idx] = 2 * np.outer(a, a.conj()) + 0.2 * np.outer(b, b.conj()) + 0.05 * np.eye(D)
        Pnn[idx] = A.hpd(seed, D, 30.0, 'c13n', idx, tag) * (1 + 0.3 * sum(idx))
    return Pxx, Pnn


def compose(name, Pxx, Pnn, bf_kwargs, atf_kwargs):
    """the composition spelled by the name, written out with the primitives."""
    bf = _bf()
    ban = name.endswith('+ban')
    core = name[:-4] if ban else name
    parts = core.split('+')

    def rank1(kind, X):
        if kind == 'rank1_pca':
            a = bf.get_pca_vector(X, **atf_kwargs)
        else:
            wg = bf.get_gev_vector(X, Pnn, **atf_kwargs)
            a = np.einsum('...dD,...D->...d', Pnn, wg)
        R = np.einsum('...d,...D->...dD', a, a.conj())
        sc = np.trace(X, axis1=-1, axis2=-2) / np.trace(R, axis1=-1, axis2=-2)
        return sc[..., None, None] * R
    if core == 'pca':
        w = bf.get_pca_vector(Pxx, **bf_kwargs)
    elif core in ('pca+mvdr', 'scaled_gev_atf+mvdr'):
        if parts[0] == 'pca':
            atf = bf.get_pca_vector(Pxx, **atf_kwargs)
        else:
            atf = np.einsum('...dD,...D->...d', Pnn, bf.get_gev_vector(Pxx, Pnn, **atf_kwargs))
        w = bf.get_mvdr_vector(atf, Pnn)
    elif parts[-1] == 'mvdr_souden':
        X = Pxx if len(parts) == 1 else rank1(parts[0], Pxx)
        w = bf.get_mvdr_vector_souden(X, Pnn, **bf_kwargs)
    elif parts[-1] == 'gev':
        X = Pxx if len(parts) == 1 else rank1(parts[0], Pxx)
        w = bf.get_gev_vector(X, Pnn, **bf_kwargs)
    elif parts[-1] == 'wmwf':
        X = Pxx if len(parts) == 1 else rank1(parts[0], Pxx)
        w = bf.get_wmwf_vector(X, Pnn, **bf_kwargs)
    elif core.startswith('ch'):
        D = Pxx.shape[-1]
        e = np.zeros(D)
        e[int(core[2:])] = 1
        w = np.broadcast_to(e, Pxx.shape[:-1])
    else:
        raise ValueError(core)
    if ban:
        w = bf.blind_analytic_normalization(w, Pnn)
    return np.asarray(w)


def kwargs_for(core, ref, atfk):
    bf_kwargs, atf_kwargs = {}, {}
    last = core.split('+')[-1]
    if ref is not None:
        if last == 'mvdr_souden':
            bf_kwargs['ref_channel'] = ref
        elif last == 'wmwf':
            bf_kwargs['reference_channel'] = ref
    if atfk == 'freqdep' and last == 'wmwf':
        bf_kwargs['distortion_weight'] = 'frequency_dependent'
    if atfk == 'trace':
        if core == 'pca':
            bf_kwargs['scaling'] = 'trace'
        elif core.startswith(('pca+', 'rank1_pca+')):
            atf_kwargs['scaling'] = 'trace'
    if atfk == 'use_eig' and ('gev' in core):
        if core in ('gev',):
            bf_kwargs['use_eig'] = True
        elif core.startswith(('scaled_gev_atf+', 'rank1_gev+')):
            atf_kwargs['use_eig'] = True
            if last == 'gev':
                bf_kwargs['use_eig'] = True
    return bf_kwargs, atf_kwargs


def run_names(key):
    bw = _bw()
    name, ref, atfk, D, F, nlead, seed = (key[k] for k in ('name', 'ref', 'atf', 'D', 'F', 'nlead', 'seed'))
    lead = {0: (), 1: (2,), 2: (2, 2)}[nlead]
    core = name[:-4] if name.endswith('+ban') else name
    last = core.split('+')[-1]
    needs_ref = last in ('mvdr_souden', 'wmwf')
    if needs_ref and ref is None and nlead != 0:
        return trivial('automatic reference is documented for 3-D input only')
    if ref is not None and (not needs_ref or ref >= D):
        return trivial('reference channel not applicable')
    Pxx, Pnn = psds(seed, lead, F, D)
    Pxx.setflags(write=False)
    Pnn.setflags(write=False)
    bf_kwargs, atf_kwargs = kwargs_for(core, ref, atfk)
    call_kw = dict(bf_kwargs)
    if atf_kwargs:
        call_kw['atf_kwargs'] = dict(atf_kwargs)
    try:
        got = np.asarray(bw.get_bf_vector(name, Pxx, Pnn, **call_kw))
    except Exception as e:  # noqa
        return viol(f'get_bf_vector({name!r}, target {Pxx.shape}, {call_kw}) raised {e!r}')
    if got.shape != lead + (F, D):
        return viol(f'{name}: shape {got.shape} != {lead + (F, D)}')
    try:
        want = compose(name, Pxx, Pnn, bf_kwargs, atf_kwargs)
    except Exception as e:  # noqa
        return viol(f'{name}: the composition of primitives raised {e!r} but the wrapper did not')
    bad = tol.mismatch(got, want, 1e-12, what=f'get_bf_vector({name!r}) vs composition of primitives')
    if bad:
        return viol(bad)
    # per leading index: the stacked call equals the call on the slice alone
    n = 0
    if lead:
        for idx in np.ndindex(*lead):
            try:
                one = np.asarray(bw.get_bf_vector(name, np.ascontiguousarray(Pxx[idx]),
                                                  np.ascontiguousarray(Pnn[idx]), **dict(
                    bf_kwargs, **({'atf_kwargs': dict(atf_kwargs)} if atf_kwargs else {}))))
            except Exception as e:  # noqa
                return viol(f'{name}: slice {idx} alone raised {e!r}')
            a, b = got[idx], one
            if 'gev' in name or name.startswith('pca') or 'rank1_pca' in name:
                # eigenvectors: defined up to a phase per bin
                ph = np.sum(a.conj() * b, axis=-1, keepdims=True)
                ph = ph / np.where(np.abs(ph) == 0, 1, np.abs(ph))
                b = b * ph.conj() if ('+mvdr' not in name and 'souden' not in name and 'wmwf' not in name) else b
            bad = tol.mismatch(a, b, 1e-9, what=f'{name}: stacked{list(idx)} vs slice alone')
            if bad:
                return viol(bad)
            n += 1
    # per bin: a strong interferer (50 ... 70 dB above the sensor noise, condition 1e5 ... 1e7) in ONE bin of the
    # noise PSD changes the result of that bin only (with an explicit reference channel no bin depends on another)
    if not (needs_ref and ref is None) and F >= 2:
        r = A.rng(seed, 'c13ill', name, D, F, nlead)
        for db in (50, 70):
            v = A.cnormal(r, (D,))
            ill = 10.0 ** (db / 10) * np.outer(v, v.conj()) + np.eye(D)
            Pnn2 = Pnn.copy()
            where = (0,) * len(lead) + (F - 1,)
            Pnn2[where] = ill
            try:
                got2 = np.asarray(bw.get_bf_vector(name, Pxx, Pnn2, **call_kw))
            except Exception as e:  # noqa
                return viol(f'get_bf_vector({name!r}) raised {e!r} with a noise PSD of condition 1e{db // 10} in one bin')
            keep = np.ones(lead + (F,), bool)
            keep[where] = False
            a, b = got2[keep], got[keep]
            if 'gev' in name or 'pca' in name:
                ph = np.sum(b.conj() * a, axis=-1, keepdims=True)
                a = a * (ph / np.where(np.abs(ph) == 0, 1, np.abs(ph))).conj()
            bad = tol.mismatch(a, b, 1e-9, what=f'{name}: bins other than {list(where)} after a {db} dB interferer was '
                                                 f'added to the noise PSD of bin {list(where)}')
            if bad:
                return viol(bad)
            n += 1
    # a bin whose target is 80 dB below the other bins gets the result it gets when it is processed alone
    if not (needs_ref and ref is None) and F >= 2 and atfk == 'default':
        Pxx3 = Pxx.copy()
        where = (0,) * len(lead) + (0,)
        Pxx3[where] = Pxx3[where] * 1e-8
        sl = (0,) * len(lead) + (slice(0, 1),)
        try:
            got3 = np.asarray(bw.get_bf_vector(name, Pxx3, Pnn, **call_kw))
            alone = np.asarray(bw.get_bf_vector(name, np.ascontiguousarray(Pxx3[sl]), np.ascontiguousarray(Pnn[sl]),
                                                **call_kw))
        except Exception as e:  # noqa
            return viol(f'get_bf_vector({name!r}) raised {e!r} with a bin 80 dB below the others')
        a, b = got3[where], alone[0]
        if 'gev' in name or 'pca' in name:
            ph = np.vdot(b, a)
            a = a * np.conj(ph / abs(ph)) if abs(ph) > 0 else a
        bad = tol.mismatch(a, b, 1e-9, what=f'{name}: bin {list(where)} (80 dB below the other bins) in the stack vs '
                                             f'processed alone')
        if bad:
            return viol(bad)
        n += 1
    return ok(outcome=tol.digest(np.abs(got)), evals=1 + n)


def run_apply(key):
    bf = _bf()
    lead, F, D, T, seed = tuple(key['lead']), key['F'], key['D'], key['T'], key['seed']
    r = A.rng(seed, 'c13apply', lead, F, D, T)
    w = A.cnormal(r, lead + (F, D))
    x = A.cnormal(r, lead + (F, D, T))
    w.setflags(write=False)
    x.setflags(write=False)
    try:
        got = np.asarray(bf.apply_beamforming_vector(w, x))
    except Exception as e:  # noqa
        return viol(f'apply_beamforming_vector raised {e!r}')
    want = np.zeros(lead + (F, T), complex)
    if T > 64:
        want = np.einsum('...fd,...fdt->...ft', w.conj(), x)       # large mixtures: the loop below is too slow
    else:
        for idx in np.ndindex(*(lead + (F,))):
            for t in range(T):
                want[idx + (t,)] = np.vdot(w[idx], x[idx][:, t])
    bad = tol.mismatch(got, want, tol.TIGHT, what='apply_beamforming_vector vs w^H x')
    if bad:
        return viol(bad)
    if not lead:
        # a stack of K vectors (K, F, D) applied to one mixture (F, D, T): K outputs - also when K equals T or F
        for Kv in (sorted({2, T, F}) if T <= 64 else (2,)):
            wk = A.cnormal(A.rng(seed, 'c13apply-k', Kv, F, D, T), (Kv, F, D))
            try:
                gk = np.asarray(bf.apply_beamforming_vector(wk, x))
            except Exception as e:  # noqa
                return viol(f'apply_beamforming_vector raised {e!r} for vectors {wk.shape} and a mixture {x.shape}')
            wantk = np.einsum('kfd,fdt->kft', wk.conj(), x)
            if gk.shape != wantk.shape:
                return viol(f'apply_beamforming_vector: shape {gk.shape} != {wantk.shape} for vectors {wk.shape} and a '
                            f'mixture {x.shape}')
            bad = tol.mismatch(gk, wantk, tol.TIGHT, what=f'apply_beamforming_vector, {Kv} vectors on one mixture')
            if bad:
                return viol(bad)
    if lead:
        # one vector per bin (F, D) applied to the whole batch of mixtures lead + (F, D, T): leading axes broadcast
        # from the right, as everywhere in NumPy
        w1 = np.ascontiguousarray(w[(0,) * len(lead)])
        try:
            gb = np.asarray(bf.apply_beamforming_vector(w1, x))
        except Exception as e:  # noqa
            return viol(f'apply_beamforming_vector raised {e!r} for a vector {w1.shape} and mixtures {x.shape}')
        wantb = np.einsum('fd,...fdt->...ft', w1.conj(), x)
        if gb.shape != wantb.shape:
            return viol(f'apply_beamforming_vector: shape {gb.shape} != {wantb.shape} for a vector {w1.shape} and '
                        f'mixtures {x.shape}')
        bad = tol.mismatch(gb, wantb, tol.TIGHT, what=f'apply_beamforming_vector, vector {w1.shape} on mixtures {x.shape}')
        if bad:
            return viol(bad)
    return ok(outcome=tol.digest(want))


def run_phase(key):
    bf = _bf()
    lead, F, D, kind, seed = tuple(key['lead']), key['F'], key['D'], key['kind'], key['seed']
    r = A.rng(seed, 'c13phase', lead, F, D, kind)
    w = A.cnormal(r, lead + (F, D))
    if kind == 'aligned':
        w = np.abs(w) + 0j
    elif kind == 'flip':
        w = (np.abs(w) + 0j) * np.where(np.arange(F) % 2 == 0, 1, -1)[:, None]
    elif kind == 'zero_bin' and F > 1:
        w[..., F // 2, :] = 0                      # what Souden / WMWF return for a zero PSD bin
    elif kind == 'orthogonal' and F > 1 and D > 1:
        w[..., 0, :] = 0
        w[..., 0, 0] = 1
        w[..., 1, :] = 0
        w[..., 1, 1] = 1j                          # exactly orthogonal neighbours: inner product 0
    w.setflags(write=False)
    snap = w.copy()
    try:
        got = np.asarray(bf.phase_correction(w))
    except Exception as e:  # noqa
        return viol(f'phase_correction raised {e!r}')
    if not np.array_equal(w, snap):
        return viol('input modified')
    if got.shape != w.shape:
        return viol(f'shape {got.shape}')
    bad = tol.mismatch(np.abs(got), np.abs(w), 1e-12, what='magnitudes changed by phase_correction')
    if bad:
        return viol(bad)
    for idx in np.ndindex(*lead):
        g = got[idx]
        for f in range(1, F):
            v = np.vdot(g[f], g[f - 1])
            if abs(v.imag) > 1e-9 * (1 + abs(v)) or v.real < -1e-9 * (1 + abs(v)):
                return viol(f'leading index {idx}: bins {f - 1},{f} not phase aligned: w_f^H w_(f-1) = {v!r}')
        if kind in ('zero_bin', 'orthogonal'):
            continue     # a zero inner product leaves the phase of the following bins undetermined
        # loop reference
        ref = np.array(w[idx])
        for f in range(1, F):
            ref[f] = ref[f] * np.exp(-1j * np.angle(np.sum(ref[f] * ref[f - 1].conj())))
        bad = tol.mismatch(g, ref, 1e-9, what=f'phase_correction at leading index {idx} vs sequential loop')
        if bad:
            return viol(bad)
    return ok(outcome=tol.digest(got))


def run_singular(key):
    bf = _bf()
    pattern, which, D, fn, mu, seed = (key[k] for k in ('pattern', 'which', 'D', 'fn', 'mu', 'seed'))
    F = len(pattern)
    Pxx, Pnn = psds(seed, (), F, D, 'sing')
    if key['real_noise']:
        Pnn = np.ascontiguousarray(Pnn.real)     # real-valued (symmetric PD) noise PSD, complex target
    if key.get('levels'):
        # the regular problems differ by 15 orders of magnitude in level (bin f at 1e-15 ** (f % 2))
        lv = np.array([1e-15 if f % 2 else 1.0 for f in range(F)])[:, None, None]
        Pxx, Pnn = Pxx * lv, Pnn * lv
    X, N = Pxx.copy(), Pnn.copy()
    for f, p in enumerate(pattern):
        for M_, on in ((N, which in ('noise', 'both')), (X, which in ('target', 'both'))):
            if not on:
                continue
            if p == 1:   # rank deficient
                v = A.cnormal(A.rng(seed, 'c13sing', f, D), (D,))
                M_[f] = np.outer(v, v.conj()) if np.iscomplexobj(M_) else np.outer(v.real, v.real)
            elif p == 2:
                M_[f] = 0
    rt_reg = 1e-9
    if key.get('single'):
        # single-precision PSD matrices
        X, N, Pxx, Pnn = (m.astype(np.complex64 if np.iscomplexobj(m) else np.float32) for m in (X, N, Pxx, Pnn))
        rt_reg = 1e-3
    X.setflags(write=False)
    N.setflags(write=False)
    try:
        if fn == 'souden':
            got = np.asarray(bf.get_mvdr_vector_souden(X, N, ref_channel=0))
            reg = np.asarray(bf.get_mvdr_vector_souden(Pxx, Pnn, ref_channel=0))
        else:
            got = np.asarray(bf.get_wmwf_vector(X, N, reference_channel=0, distortion_weight=mu))
            reg = np.asarray(bf.get_wmwf_vector(Pxx, Pnn, reference_channel=0, distortion_weight=mu))
    except Exception as e:  # noqa
        return viol(f'{fn} raised on singular/zero PSD matrices {pattern}: {e!r}')
    if got.shape != (F, D):
        return viol(f'shape {got.shape}')
    # the same beamformer through the wrapper, with and without blind analytic normalisation: finite as well
    # (a bin without noise power gets the factor 0, never 0/0)
    if not key.get('single') and which == 'noise' and 1 not in pattern:
        bw = _bw()
        nm = 'mvdr_souden' if fn == 'souden' else 'wmwf'
        kw_ = dict(ref_channel=0) if fn == 'souden' else dict(reference_channel=0, distortion_weight=mu)
        try:
            wb = np.asarray(bw.get_bf_vector(nm + '+ban', X, N, **kw_))
        except Exception as e:  # noqa
            return viol(f"get_bf_vector('{nm}+ban') raised on zero PSD matrices {pattern}: {e!r}")
        jb = np.ones(F, bool) if not (fn == 'wmwf' and mu == 0) else np.array([p != 2 for p in pattern])
        if not np.isfinite(wb[jb]).all():
            return viol(f"get_bf_vector('{nm}+ban'): non-finite vector for pattern {pattern} ({which})")
    judged = np.ones(F, bool)
    if fn == 'wmwf' and mu == 0:
        judged = np.array([not (p == 2 and which in ('noise', 'both', 'target')) for p in pattern])
    if not np.isfinite(got[judged]).all():
        return viol(f'{fn}: non-finite vector for pattern {pattern} ({which})')
    for f, p in enumerate(pattern):
        if p == 0:
            sc_ = float(np.abs(reg[f]).max()) or 1.0     # relative to the level of that bin
            bad = tol.mismatch(got[f] / sc_, reg[f] / sc_, rt_reg, what=f'{fn}: regular bin {f} affected by singular neighbours {pattern}')
            if bad:
                return viol(bad)
    return ok(outcome=tol.digest(np.where(np.isfinite(got), got, 0)))


def subchecks(tier, seed):
    seeds_ = [seed] if tier != 'thorough' else [seed] + [seed * 1000 + v for v in range(1, 4)]
    thorough = tier == 'thorough'
    subs = []
    names = [c + s for c in CORE for s in ('', '+ban')]
    Fs = (1, 2, 3, 5, 32) if thorough else (1, 3, 5, 32)

    def name_cases():
        for seed in seeds_:
            for name in names:
                for ref in (None, 0, 1, 2):
                    for atfk in ('default', 'trace', 'use_eig', 'freqdep'):
                        for D in (2, 3, 5, 8):
                            for F in Fs:
                                for nlead in (0, 1, 2):
                                    if D == 8 and (atfk != 'default' or nlead == 2 or (F > 3 and not thorough)):
                                        continue      # the largest D of the stated range: default options only
                                    if F == 32 and not thorough and (D != 2 or nlead == 2 or atfk != 'default'):
                                        continue      # the largest F of the stated range
                                    core = name[:-4] if name.endswith('+ban') else name
                                    if atfk == 'freqdep' and (core.split('+')[-1] != 'wmwf' or ref is None):
                                        continue
                                    if atfk not in ('default', 'freqdep') and (ref not in (None, 0) or D == 5):
                                        continue
                                    needs_ref = core.split('+')[-1] in ('mvdr_souden', 'wmwf')
                                    if ref is not None and (not needs_ref or ref >= D):
                                        continue
                                    if needs_ref and ref is None and nlead != 0:
                                        continue
                                    yield (name, ref, atfk, D, F, nlead, seed)
    subs.append(Sub('wrapper_names', ('name', 'ref', 'atf', 'D', 'F', 'nlead', 'seed'), name_cases,
                    run_names, bound=dict(names=names, F=list(Fs))))

    def apply_cases():
        for seed in seeds_:
            for lead in ((), (2,), (2, 3)):
                for F in (1, 2, 5):
                    for D in (1, 2, 3, 8):
                        for T in (1, 4, 5):
                            yield (lead, F, D, T, seed)
            # mixtures of more than a million samples (a few seconds of a multi-channel STFT)
            yield ((2,), 64, 4, 2100, seed)
            yield ((), 257, 4, 1100, seed)
    subs.append(Sub('apply_beamforming_vector', ('lead', 'F', 'D', 'T', 'seed'), apply_cases, run_apply))

    def phase_cases():
        for seed in seeds_:
            for lead in ((), (1,), (2,), (3,), (2, 2), (2, 3), (3, 2, 2)):
                for F in (1, 2, 3, 5, 32):
                    for D in (1, 2, 3, 8):
                        for kind in ('generic', 'aligned', 'flip', 'zero_bin', 'orthogonal'):
                            yield (lead, F, D, kind, seed)
    subs.append(Sub('phase_correction', ('lead', 'F', 'D', 'kind', 'seed'), phase_cases, run_phase))

    def sing_cases():
        for seed in seeds_:
            for pattern in itertools.product((0, 1, 2), repeat=4):
                for which in ('noise', 'target', 'both'):
                    for D in (2, 3):
                        for fn, mus in (('souden', (None,)), ('wmwf', (1.0, 0.5, 0.0))):
                            for mu in mus:
                                rd = bool(1 in pattern and which in ('noise', 'both'))
                                for real_noise in (False, True):
                                    if real_noise and (D == 3 or mu == 0.5):
                                        continue
                                    yield (pattern, which, D, fn, mu, rd, real_noise, False, False, seed)
                                    if not real_noise and D == 2 and mu in (None, 1.0) and 1 not in pattern:
                                        yield (pattern, which, D, fn, mu, rd, real_noise, True, False, seed)
                                    if not real_noise and D == 3 and mu in (None, 1.0) and 1 not in pattern \
                                            and which == 'noise':
                                        yield (pattern, which, D, fn, mu, rd, real_noise, False, True, seed)
    subs.append(Sub('singular_bins',
                    ('pattern', 'which', 'D', 'fn', 'mu', 'rank_deficient_noise', 'real_noise', 'single', 'levels',
                     'seed'),
                    sing_cases, run_singular,
                    bound=dict(patterns='all {regular, rank-1, zero}^4')))
    return subs
