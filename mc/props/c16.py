"""C16 — blind alignment restores a frequency-consistent class order.

Exhaustive permutation fields for small (K,F); deviation-bounded fields (<=2 change
points) and adversarial families for large F; every DHTV plan for STFT sizes <= 64;
the mapping equals the loop-level reference procedure on tie-free masks; (thorough)
TLC model of the plan replayed against alignment_plan."""
import itertools
import json
import os
import re
import subprocess
import tempfile

import numpy as np

from mc.core import Sub, ok, trivial, viol, HarnessError
from mc import alphabet as A
from mc import tol
from mc.refmodels import alignment as R

LEVEL = 'model_checking'
RULE = ('all K!^F fields for (K,F) in {(2,9),(3,5)} (thorough +(2,13),(3,7)); F in {33,65,257,513}: all '
        'piecewise-constant fields with <=2 change points + adversarial families; DHTV fields constructed inside '
        'the stated domain; every (stft_size<=64,start,width,shift<=width) plan; net reordering on tie-free '
        'masks K<=5, odd F<=61; TLC plan model (thorough)')
ASSUMPTIONS = ['DHTV is judged only on plans whose later segments overlap the already covered band by >= 2/3 '
               '(computed from alignment_plan itself) and on fields with >= 70 % majority in the first segment']


def _pa():
    import pb_bss.permutation_alignment as pa
    return pa


def base_mask(seed, K, F, T, tag=()):
    """disjoint-support activity patterns + small leak, equal across frequency up to <=10 % jitter."""
    r = A.rng(seed, 'c16base', K, T, tag)
    act = np.full((K, T), 0.02)
    owner = np.arange(T) % K
    r.shuffle(owner)
    act[owner, np.arange(T)] = r.uniform(0.6, 1.0, size=T)
    # vet: pairwise cosine <= 0.1
    n = act / np.linalg.norm(act, axis=1, keepdims=True)
    g = n @ n.T - np.eye(K)
    if g.max() > 0.1:
        raise HarnessError('activity patterns not orthogonal enough')
    jit = 1 + 0.1 * np.sin(np.arange(K)[:, None, None] * 1.7 + np.arange(F)[None, :, None] * 0.9
                           + np.arange(T)[None, None, :] * 2.3)
    return act[:, None, :] * jit


def permute(base, field_idx, perms):
    """mask[k, f] = base[perms[field_idx[f]][k], f]"""
    K, F = base.shape[:2]
    mapping = np.array([perms[p] for p in field_idx]).T
    return R.apply_mapping_loop(base, mapping), mapping


def consistent(mapping_in, mapping_out):
    """injected o returned constant over frequency."""
    K, F = mapping_in.shape
    comp = np.array([[mapping_in[mapping_out[k, f], f] for f in range(F)] for k in range(K)])
    return bool((comp == comp[:, :1]).all()), comp


# ------------------------------------------------------------- plans

def plan_overlaps(plan, F):
    """fraction of every later segment that lies inside the band covered before it."""
    covered = np.zeros(F, bool)
    out = []
    for i, (_, lo, hi) in enumerate(plan):
        if i:
            out.append(covered[lo:hi].mean() if hi > lo else 0.0)
        covered[lo:hi] = True
    return out, covered


def run_plan(key):
    pa = _pa()
    stft, start, width = key['stft'], key['start'], key['width']
    F = stft // 2 + 1
    n = 0
    for shift in range(1, width + 1):
        al = pa.DHTVPermutationAlignment(stft_size=stft, segment_start=start, segment_width=width,
                                         segment_shift=shift, main_iterations=20, sub_iterations=2)
        try:
            plan = al.alignment_plan
        except Exception as e:  # noqa
            return viol(f'alignment_plan raised {e!r} for a valid configuration')
        ref = R.plan(F, start, width, shift, 20, 2)
        if [list(p) for p in plan] != ref:
            return viol(f'alignment_plan({stft},{start},{width},{shift}) = {plan} != reference plan {ref}')
        covered = np.zeros(F, bool)
        for i, (its, lo, hi) in enumerate(plan):
            if not (0 <= lo < hi <= F):
                return viol(f'segment {(lo, hi)} out of range')
            if i and not (covered[lo:hi].any() or covered[max(lo - 1, 0)] or covered[min(hi, F - 1)]):
                return viol(f'segment {(lo, hi)} does not meet the already covered band (plan {plan})')
            covered[lo:hi] = True
        if not covered.all():
            return viol(f'plan ({stft},{start},{width},{shift}) leaves bins {np.where(~covered)[0].tolist()} uncovered')
        n += 1
    return ok(outcome=f'{F},{start},{width}', evals=n, states=n, transitions=n)


# ------------------------------------------------------------- greedy aligner

def run_greedy_small(key):
    pa = _pa()
    K, F, T, chunk, seed = key['K'], key['F'], key['T'], key['chunk'], key['seed']
    perms = list(itertools.permutations(range(K)))
    base = base_mask(seed, K, F, T)
    total = len(perms) ** F
    per = key['per']
    n = 0
    for code in range(chunk * per, min(total, (chunk + 1) * per)):
        fld = []
        x = code
        for _ in range(F):
            fld.append(x % len(perms))
            x //= len(perms)
        mask, min_ = permute(base, fld, perms)
        for metric in ('euclidean', 'cos'):
            al = pa.GreedyPermutationAlignment(similarity_metric=metric)
            try:
                m = np.asarray(al.calculate_mapping(mask))
            except Exception as e:  # noqa
                return viol(f'Greedy({metric}) raised {e!r}')
            good, comp = consistent(min_, m)
            if not good:
                return viol(f'Greedy({metric}): class order not consistent over frequency for the field '
                            f'{fld}', comp.tolist())
            if code == 0 and not np.array_equal(m, np.repeat(np.arange(K)[:, None], F, 1)):
                return viol('consistent mask: greedy aligner does not return the identity mapping')
            if code % 7 == 0:
                # the mapping does not depend on a power-of-two scaling of the mask (levels around 1e18 and 1e-18)
                for sc in (2.0 ** 60, 2.0 ** -60):
                    try:
                        ms_ = np.asarray(pa.GreedyPermutationAlignment(similarity_metric=metric)
                                         .calculate_mapping(mask * sc))
                    except Exception as e:  # noqa
                        return viol(f'Greedy({metric}) raised {e!r} for the mask scaled by {sc:.1e}')
                    if not np.array_equal(ms_, m):
                        return viol(f'Greedy({metric}): mapping changes when the mask is scaled by {sc:.1e} (field {fld})')
            n += 1
    return ok(outcome=f'{K},{F},{chunk}', evals=n, states=n, transitions=n * (F - 1))


def run_integer_masks(key):
    """binary / count masks stored in an integer dtype (disjoint activity patterns, equal in every bin): the same
    consistency as for float masks, and the same mapping as for the float copy of the mask."""
    pa = _pa()
    K, F, T, dt, seed = key['K'], key['F'], key['T'], key['dtype'], key['seed']
    perms = list(itertools.permutations(range(K)))
    r = A.rng(seed, 'c16int', K, F, T)
    owner = np.arange(T) % K
    r.shuffle(owner)
    base = np.zeros((K, F, T), dtype=np.dtype(dt))
    base[owner, :, np.arange(T)] = 1 if dt == 'int8' else 7       # binary mask / counts
    n = 0
    for trial in range(6):
        fld = [0] * F if trial == 0 else list(r.integers(0, len(perms), size=F))
        if trial:
            # DHTV domain: 70 % of the first segment share one order
            fld[: max(1, F // 2)] = [fld[0]] * max(1, F // 2)
        mask, min_ = permute(base, fld, perms)
        mask = np.ascontiguousarray(mask.astype(base.dtype))
        for name in ('greedy', 'dhtv'):
            for metric in ('cos', 'euclidean'):
                if name == 'greedy':
                    al = pa.GreedyPermutationAlignment(similarity_metric=metric)
                else:
                    al = pa.DHTVPermutationAlignment(stft_size=2 * (F - 1), segment_start=0,
                                                     segment_width=max(3, F // 2), segment_shift=max(1, F // 6),
                                                     main_iterations=20, sub_iterations=2, similarity_metric=metric)
                try:
                    m = np.asarray(al.calculate_mapping(mask))
                    mf = np.asarray(al.calculate_mapping(mask.astype(float)))
                except Exception as e:  # noqa
                    return viol(f'{name}({metric}) raised {e!r} for a {dt} mask')
                good, comp = consistent(min_, m)
                if not good:
                    return viol(f'{name}({metric}): class order not consistent for a {dt} mask (field {fld})')
                if not np.array_equal(m, mf):
                    return viol(f'{name}({metric}): mapping of a {dt} mask differs from the mapping of its float copy')
                n += 1
    return ok(outcome=f'{K},{F},{dt}', evals=n, states=n, transitions=n * F)


def large_cuts(F):
    return sorted({1, 2, F // 7, F // 3, F // 2, F - F // 3, F - 2, F - 1})


def large_parts(F, family):
    """number of independent parts a family is split into (one case each, for the worker pool)."""
    if family == 'two_changes':
        return len(list(itertools.combinations(large_cuts(F), 2))) + 1
    return 1


def large_fields(K, F, family, perms, part=None):
    """yield lists of permutation indices of length F (part: one pair of cut positions / the single cuts)."""
    P = len(perms)
    if family == 'two_changes':
        cuts = large_cuts(F)
        pairs = list(itertools.combinations(cuts, 2))
        for i, (a, b) in enumerate(pairs):
            if part is not None and part != i:
                continue
            for p0, p1, p2 in itertools.product(range(P), repeat=3):
                if P > 2 and (p0 + p1 + p2) % 3:
                    continue
                yield [p0] * a + [p1] * (b - a) + [p2] * (F - b)
        if part is None or part == len(pairs):
            for a in cuts:
                for p0, p1 in itertools.product(range(P), repeat=2):
                    yield [p0] * a + [p1] * (F - a)
    elif family == 'alternating':
        for p0, p1 in itertools.permutations(range(P), 2):
            yield [p0 if f % 2 == 0 else p1 for f in range(F)]
    elif family == 'single_flips':
        for p1 in range(1, P):
            for pos in range(0, F, max(1, F // 16)):
                fld = [0] * F
                fld[pos] = p1
                yield fld
    elif family == 'block_rotation':
        for block in (2, 5, F // 8 + 1):
            yield [(f // block) % P for f in range(F)]


def run_greedy_large(key):
    pa = _pa()
    K, F, T, family, seed = key['K'], key['F'], key['T'], key['family'], key['seed']
    perms = list(itertools.permutations(range(K)))
    base = base_mask(seed, K, F, T)
    n = 0
    for fld in large_fields(K, F, family, perms, key.get('part')):
        mask, min_ = permute(base, fld, perms)
        al = pa.GreedyPermutationAlignment(similarity_metric=key['metric'])
        m = np.asarray(al.calculate_mapping(mask))
        good, comp = consistent(min_, m)
        if not good:
            bad = np.where((comp != comp[:, :1]).any(0))[0][:8].tolist()
            return viol(f'Greedy({key["metric"]}): order not consistent ({family}, first bad bins {bad})')
        n += 1
    return ok(outcome=f'{K},{F},{family},{key.get("part")}', evals=n, states=n, transitions=n * (F - 1))


# ------------------------------------------------------------- DHTV

def dhtv_for(pa, F, cfg, metric='cos', alg='greedy'):
    if cfg == 'default512':
        return pa.DHTVPermutationAlignment.from_stft_size(512, similarity_metric=metric)
    if cfg == 'default1024':
        return pa.DHTVPermutationAlignment.from_stft_size(1024, similarity_metric=metric)
    start, width, shift = cfg
    return pa.DHTVPermutationAlignment(stft_size=2 * (F - 1), segment_start=start, segment_width=width,
                                       segment_shift=shift, main_iterations=20, sub_iterations=2,
                                       similarity_metric=metric, algorithm=alg)


def in_domain_plan(al, F):
    ov, _ = plan_overlaps(al.alignment_plan, F)
    return all(o >= 2 / 3 - 1e-12 for o in ov)


def qualifying_plans(F):
    pa = _pa()
    out = []
    for start in range(F):
        for width in range(3, F - start + 1):
            for shift in range(1, width // 3 + 1):
                al = dhtv_for(pa, F, (start, width, shift))
                if in_domain_plan(al, F):
                    out.append((start, width, shift))
    return out


def run_dhtv_small(key):
    """every field of the stated domain for a small F: majority >= 70 % in the first segment."""
    pa = _pa()
    K, F, T, cfg, seed = key['K'], key['F'], key['T'], tuple(key['cfg']), key['seed']
    perms = list(itertools.permutations(range(K)))
    P = len(perms)
    base = base_mask(seed, K, F, T)
    al = dhtv_for(pa, F, cfg)
    plan = al.alignment_plan
    lo, hi = plan[0][1], plan[0][2]
    need = int(np.ceil(0.7 * (hi - lo) - 1e-9))
    n = 0
    outside = [f for f in range(F) if not lo <= f < hi]
    # majority order: each permutation; minority: every placement and every order; outside: everything
    for maj in range(P):
        for nmin in range(0, (hi - lo) - need + 1):
            for pos in itertools.combinations(range(lo, hi), nmin):
                for mins in itertools.product([p for p in range(P) if p != maj], repeat=nmin):
                    out_space = itertools.product(range(P), repeat=len(outside))
                    for oc, outp in enumerate(out_space):
                        if P ** len(outside) > 64 and (oc * 7 + maj + nmin) % max(1, P ** len(outside) // 64):
                            continue    # cap per inner field: stated in the evidence
                        fld = [maj] * F
                        for q, p in zip(pos, mins):
                            fld[q] = p
                        for q, p in zip(outside, outp):
                            fld[q] = p
                        mask, min_ = permute(base, fld, perms)
                        m = np.asarray(al.calculate_mapping(mask))
                        good, comp = consistent(min_, m)
                        if not good:
                            return viol(f'DHTV{cfg}: order not consistent for the in-domain field {fld} '
                                        f'(plan {plan})', comp.tolist())
                        n += 1
    ident = np.asarray(al.calculate_mapping(base))
    if not np.array_equal(ident, np.repeat(np.arange(K)[:, None], F, 1)):
        return viol(f'DHTV{cfg}: consistent mask is not returned unchanged')
    return ok(outcome=f'{K},{F},{cfg}', evals=n + 1, states=n + 1, transitions=(n + 1) * len(plan))


def run_dhtv_large(key):
    pa = _pa()
    K, F, T, cfg, family, metric, seed = (key[k] for k in ('K', 'F', 'T', 'cfg', 'family', 'metric', 'seed'))
    cfg = tuple(cfg) if isinstance(cfg, list) else cfg
    perms = list(itertools.permutations(range(K)))
    P = len(perms)
    base = base_mask(seed, K, F, T)
    al = dhtv_for(pa, F, cfg, metric)
    plan = al.alignment_plan
    if not in_domain_plan(al, F):
        return trivial('plan outside the two-thirds overlap domain')
    lo, hi = plan[0][1], plan[0][2]
    w = hi - lo
    nmin = int(np.floor(0.3 * w + 1e-9))
    r = A.rng(seed, 'c16dl', K, F, family)
    fields = []
    for maj in range(P):
        others = [p for p in range(P) if p != maj]
        for wrong in others[:2]:
            seg = {
                'minority_low': [wrong] * nmin + [maj] * (w - nmin),
                'minority_high': [maj] * (w - nmin) + [wrong] * nmin,
                'minority_interleaved': [wrong if (i % 4 == 1 and i // 4 < nmin) else maj for i in range(w)],
            }
            for name, s in seg.items():
                if family == 'outside_same_wrong':
                    fld = [wrong] * lo + s + [wrong] * (F - hi)
                elif family == 'outside_alternating':
                    fld = [others[f % len(others)] for f in range(lo)] + s + \
                          [others[f % len(others)] for f in range(F - hi)]
                elif family == 'outside_random':
                    fld = r.integers(0, P, size=lo).tolist() + s + r.integers(0, P, size=F - hi).tolist()
                elif family == 'outside_blocks':
                    fld = [(f // 7) % P for f in range(lo)] + s + [(f // 5) % P for f in range(F - hi)]
                else:
                    raise ValueError(family)
                fields.append(fld)
    n = 0
    for fld in fields:
        mask, min_ = permute(base, fld, perms)
        m = np.asarray(al.calculate_mapping(mask))
        good, comp = consistent(min_, m)
        if not good:
            bad = np.where((comp != comp[:, :1]).any(0))[0][:8].tolist()
            return viol(f'DHTV({cfg},{metric}): order not consistent for an in-domain field ({family}; '
                        f'first inconsistent bins {bad})')
        n += 1
    ident = np.asarray(al.calculate_mapping(base))
    if not np.array_equal(ident, np.repeat(np.arange(K)[:, None], F, 1)):
        return viol(f'DHTV({cfg}): consistent mask is not returned unchanged')
    return ok(outcome=f'{K},{F},{cfg},{family}', evals=n + 1, states=n + 1, transitions=(n + 1) * len(plan))


# ------------------------------------------------------------- net reordering

def run_net(key):
    pa = _pa()
    K, F, T, cfg, metric, alg, seed = (key[k] for k in ('K', 'F', 'T', 'cfg', 'metric', 'alg', 'seed'))
    r = A.rng(seed, 'c16net', K, F, T)
    mask = r.uniform(0.05, 1.0, size=(K, F, T))
    mask.setflags(write=False)
    if cfg == 'greedy':
        al = pa.GreedyPermutationAlignment(similarity_metric=metric, algorithm=alg)
        ref, amb = R.greedy_chain(mask, metric, strict=True)
        feats = None
    else:
        cfg = tuple(cfg)
        al = pa.DHTVPermutationAlignment(stft_size=2 * (F - 1), segment_start=cfg[0], segment_width=cfg[1],
                                         segment_shift=cfg[2], main_iterations=5, sub_iterations=2,
                                         similarity_metric=metric, algorithm=alg)
        ref, feats, amb = R.dhtv(mask, F, cfg[0], cfg[1], cfg[2], 5, 2, metric, alg, strict=True)
    try:
        m = np.asarray(al.calculate_mapping(mask))
        out = np.asarray(al(mask))
    except Exception as e:  # noqa
        return viol(f'aligner raised {e!r}')
    # a power-of-two scaling of the mask scales every score exactly: the mapping is the same permutation field,
    # at mask levels around 1e18 (double) and 1e9 (single precision) as well
    for dt, sc in ((np.float64, 2.0 ** 60), (np.float64, 2.0 ** -60), (np.float32, 2.0 ** 30)):
        small = np.asarray(mask, dtype=dt)
        try:
            m1 = np.asarray(al.calculate_mapping(small))
            m2 = np.asarray(al.calculate_mapping(small * dt(sc)))
        except Exception as e:  # noqa
            return viol(f'aligner raised {e!r} for the mask scaled by {sc:.1e} ({np.dtype(dt).name})')
        if not all(sorted(c) == list(range(K)) for c in m2.T.tolist()):
            return viol(f'{cfg}({metric},{alg}): mapping of the mask scaled by {sc:.1e} ({np.dtype(dt).name}) is not a '
                        f'permutation in every bin', m2.tolist())
        if not np.array_equal(m1, m2):
            return viol(f'{cfg}({metric},{alg}): mapping changes when the {np.dtype(dt).name} mask is scaled by {sc:.1e}',
                        m1.tolist(), m2.tolist())
    if amb:
        return trivial('tie or near tie in the reference procedure (mask not tie-free)')
    if not np.array_equal(m, ref):
        return viol(f'{cfg}({metric},{alg}): mapping is not the accumulated net reordering of the procedure',
                    m.tolist(), ref.tolist())
    want = R.apply_mapping_loop(mask, ref)
    if not np.array_equal(out, want):
        return viol('applying the mapping does not reproduce mask[mapping]')
    if feats is not None:
        f_ref = R.normalise_rows(want) if metric == 'cos' else want
        if np.abs(f_ref - feats).max() > 1e-12:
            return viol('applying the mapping does not reproduce the features the procedure converged to')
    return ok(outcome=tol.digest(ref), states=1, transitions=F)


# ------------------------------------------------------------- TLC model of the plan

TLA_DIR = os.path.join(os.path.dirname(os.path.dirname(os.path.abspath(__file__))), 'tla')


def run_tlc_plan(key):
    pa = _pa()
    maxF = key['maxF']
    tmp = tempfile.mkdtemp(prefix='c16tlc_', dir='/var/tmp')
    try:
        for fn in ('DHTVPlan.tla',):
            with open(os.path.join(TLA_DIR, fn)) as f, open(os.path.join(tmp, fn), 'w') as g:
                g.write(f.read())
        with open(os.path.join(tmp, 'DHTVPlan.cfg'), 'w') as g:
            g.write(f'CONSTANT MaxF = {maxF}\nINIT Init\nNEXT Next\nINVARIANT Overlap\nINVARIANT Coverage\n'
                    f'INVARIANT InRange\n')
        dump = os.path.join(tmp, 'plan.dot')
        try:
            p = subprocess.run(['tlc', '-workers', '4', '-deadlock', '-noGenerateSpecTE', '-metadir',
                                os.path.join(tmp, 'meta'), '-dump', 'dot,actionlabels', dump, 'DHTVPlan'],
                               cwd=tmp, capture_output=True, text=True, timeout=3000)
        except FileNotFoundError:
            return trivial('tlc not available')
        out = p.stdout
        if 'Model checking completed. No error has been found' not in out:
            return viol('TLC reports an error in the plan model: ' + out[-800:])
        mm = re.search(r'(\d+) states generated, (\d+) distinct states found', out)
        distinct = int(mm.group(2)) if mm else 0
        # parse the dumped graph: nodes (label = state), edges
        text = open(dump).read()
        nodes = {}
        for m_ in re.finditer(r'^(-?\d+) \[label="((?:[^"\\]|\\.)*)"(.*?)\];?$', text, re.M):
            nid, lab, rest = m_.group(1), m_.group(2), m_.group(3)
            st = {}
            for part in lab.split('\\n'):
                part = part.strip()
                mm2 = re.match(r'/\\\\ (\w+) = (.*)', part)
                if mm2:
                    st[mm2.group(1)] = mm2.group(2)
            nodes[nid] = (st, 'filled' in rest)
        edges = {}
        for m_ in re.finditer(r'^(-?\d+) -> (-?\d+)', text, re.M):
            edges.setdefault(m_.group(1), []).append(m_.group(2))

        def setval(s):
            s = s.strip()
            if s == '{}':
                return frozenset()
            mm3 = re.match(r'^(\d+)\.\.(\d+)$', s)
            if mm3:
                return frozenset(range(int(mm3.group(1)), int(mm3.group(2)) + 1))
            return frozenset(int(x) for x in s.strip('{}').split(',') if x.strip())
        traces = 0
        for nid, (st, initial) in nodes.items():
            if not initial:
                continue
            F, start, width, shift = (int(st[k]) for k in ('F', 'start', 'width', 'shift'))
            al = pa.DHTVPermutationAlignment(stft_size=2 * (F - 1), segment_start=start, segment_width=width,
                                             segment_shift=shift, main_iterations=20, sub_iterations=2)
            plan = al.alignment_plan
            cur = nid
            cov = set()
            for step, (_, lo, hi) in enumerate(plan):
                nxt = [e for e in edges.get(cur, []) if e != cur]
                if len(nxt) != 1:
                    return viol(f'model/implementation diverge at step {step} of configuration '
                                f'({F},{start},{width},{shift}): model has {len(nxt)} successors')
                cur = nxt[0]
                cov |= set(range(lo, hi))
                if setval(nodes[cur][0]['covered']) != frozenset(cov):
                    return viol(f'configuration ({F},{start},{width},{shift}) step {step}: implementation covers '
                                f'{sorted(cov)}, TLA+ model {sorted(setval(nodes[cur][0]["covered"]))}')
            if [e for e in edges.get(cur, []) if e != cur]:
                return viol(f'TLA+ model has more plan steps than the implementation for ({F},{start},{width},{shift})')
            if cov != set(range(F)):
                return viol(f'plan of ({F},{start},{width},{shift}) does not cover every bin')
            traces += 1
        if traces == 0:
            raise HarnessError('no initial states parsed from the TLC dump')
        return ok(outcome=f'tlc:{maxF}:{distinct}:{traces}', states=distinct, transitions=max(distinct - traces, 1),
                  traces=traces, evals=traces)
    finally:
        subprocess.run(['rm', '-rf', tmp])


# ------------------------------------------------------------- sub-check list

def subchecks(tier, seed):
    thorough = tier == 'thorough'
    subs = []

    def plan_cases():
        for stft in range(2, 65, 2):
            F = stft // 2 + 1
            for start in range(F):
                for width in range(1, F - start + 1):
                    yield (stft, start, width)
    subs.append(Sub('plan_coverage', ('stft', 'start', 'width'), plan_cases, run_plan,
                    bound=dict(stft_size='even 2..64', note='every shift <= width inside each case')))

    small = [(2, 9), (3, 5)] + ([(2, 13), (3, 7)] if thorough else [])

    def gs_cases():
        for K, F in small:
            total = len(list(itertools.permutations(range(K)))) ** F
            per = 256
            for chunk in range((total + per - 1) // per):
                yield (K, F, 12, chunk, per, seed)
    subs.append(Sub('greedy_all_fields', ('K', 'F', 'T', 'chunk', 'per', 'seed'), gs_cases, run_greedy_small,
                    bound=dict(shapes=small, fields='all K!^F')))

    def int_cases():
        for K in (2, 3):
            for F in (9, 33):
                for dt in ('int8', 'int32', 'uint8'):
                    yield (K, F, 12, dt, seed)
    subs.append(Sub('integer_dtype_masks', ('K', 'F', 'T', 'dtype', 'seed'), int_cases, run_integer_masks))

    def gl_cases():
        for K in (2, 3, 4):
            for F in (33, 65, 257, 513):
                for family in ('two_changes', 'alternating', 'single_flips', 'block_rotation'):
                    for metric in ('euclidean', 'cos'):
                        if (F > 65 or K == 4) and not thorough and (metric == 'cos' or
                                                                     (K == 4 and family == 'two_changes')):
                            continue
                        for part in range(large_parts(F, family)):
                            yield (K, F, 16, family, metric, part, seed)
    subs.append(Sub('greedy_large_fields', ('K', 'F', 'T', 'family', 'metric', 'part', 'seed'), gl_cases,
                    run_greedy_large))

    def ds_cases():
        for K, F in small:
            for cfg in qualifying_plans(F):
                yield (K, F, 12, cfg, seed)
    subs.append(Sub('dhtv_domain_small', ('K', 'F', 'T', 'cfg', 'seed'), ds_cases, run_dhtv_small,
                    exhaustive=False, bound=dict(note='every in-domain field; arbitrary part outside the first '
                                                 'segment capped at 64 fields per inner configuration')))

    def dl_cases():
        fams = ('outside_same_wrong', 'outside_alternating', 'outside_random', 'outside_blocks')
        for K in (2, 3, 4):
            for F, cfgs in ((257, ('default512',)), (513, ('default1024',)),
                            (33, [c for c in qualifying_plans(33) if c[2] in (1, c[1] // 3)][::(7 if thorough else 60)]),
                            (65, [(10, 24, 8), (0, 30, 10), (20, 21, 7)] if thorough else [(10, 24, 8)])):
                for cfg in cfgs:
                    for family in fams:
                        for metric in ('cos',) + (('euclidean',) if thorough else ()):
                            if not thorough and ((F >= 257 and K == 4) or
                                                 (F == 513 and family in ('outside_alternating', 'outside_blocks'))):
                                continue
                            yield (K, F, 16, cfg, family, metric, seed)
    subs.append(Sub('dhtv_domain_large', ('K', 'F', 'T', 'cfg', 'family', 'metric', 'seed'), dl_cases,
                    run_dhtv_large, exhaustive=False))

    def net_cases():
        for K in (1, 2, 3, 5):
            for F in (1, 3, 7, 13, 31, 61):
                for T in (1, 3, 8):
                    for metric in ('cos', 'euclidean', 'multiply'):
                        for alg in ('greedy', 'optimal'):
                            cfgs = ['greedy']
                            if F <= 13:
                                cfgs += [(s, w, sh) for s in range(F) for w in range(1, F - s + 1)
                                         for sh in range(1, w + 1)
                                         if thorough or (s + w + sh) % 5 == 0 or F <= 3]
                            else:
                                cfgs += [(F // 3, F // 4, max(1, F // 12)), (0, F // 2, F // 6),
                                         (F - F // 5, F // 5, max(1, F // 15))]
                            for cfg in cfgs:
                                if K == 5 and alg == 'optimal' and F > 13:
                                    continue
                                yield (K, F, T, cfg, metric, alg, seed)
    subs.append(Sub('net_reordering', ('K', 'F', 'T', 'cfg', 'metric', 'alg', 'seed'), net_cases, run_net))

    def tlc_cases():
        yield (17 if thorough else 7,)
    subs.append(Sub('tlc_plan_model', ('maxF',), tlc_cases, run_tlc_plan, min_outcomes=1,
                    bound=dict(model='mc/tla/DHTVPlan.tla', note='every behaviour of the model replayed against '
                               'alignment_plan (traces_validated_against_impl = number of configurations)')))
    return subs
