"""C04 — spatial models depend only on the direction of each observation vector.

Metamorphic exploration: every assignment of gains from a 7-element set to N=4
frames (up to frame order in the quick tier), gain pairs at several positions for
N=12 under every single-option deviation, for all directional models, their
single-distribution trainers and log_pdfs."""
import itertools

import numpy as np

from mc.core import Sub, ok, trivial, viol
from mc import alphabet as A
from mc import impl
from mc import tol
from mc.props import c01
from mc.refmodels import mixtures as M

LEVEL = 'exploration'
RULE = ('all gain fields over {1,-1,i,e^(i theta),1e-100,1e100,1e-3 e^(i theta)} for N=4 frames; '
        'N=12 with <=2 non-unit gains x every configuration with <=1 non-default option x iterations '
        '{1,3,10}; positive real gains for vMF / embedding streams')
ASSUMPTIONS = ['raw ComplexWatson/ComplexBingham log_pdf document unit-norm input: only unit-modulus gains there']

THETA = 0.7
CGAINS = (1.0, -1.0, 1j, np.exp(1j * THETA), 1e-100, 1e100, 1e-3 * np.exp(1j * THETA))
PGAINS = (1.0, 0.5, 2.0, 1e-3, 1e3, 1e-100, 1e100)
SPATIAL = ('cacgmm', 'cwmm', 'cbmm', 'gcacgmm', 'vmfcacgmm')


def compare_models(model, m1, m2, data1, data2, shape, rt, mask=None):
    f1, f2 = M.fields(model, m1), M.fields(model, m2)
    if model == 'cbmm':
        lam = np.concatenate([np.ravel(m.complex_bingham.covariance_eigenvalues) for m in (m1, m2)])
        if np.abs(lam).max() > 1e6:
            return 'TRIVIAL: Bingham concentration > 1e6 (class scatter numerically rank deficient)'
    for name in f1:
        a, b = f1[name], f2[name]
        if name == 'weight':
            a, b = M.weight_full(model, m1, shape), M.weight_full(model, m2, shape)
        bad = tol.mismatch(b, a, rt * (100 if name in ('watson_mode', 'vmf_mean') else 1),
                           what=f'{model} {name}: fit(c*y) vs fit(y)')
        if bad:
            return bad
    kw = {} if mask is None else dict(source_activity_mask=mask)
    if model in M.INTEGRATION:
        p1, p2 = m1.predict(*data1), m2.predict(*data2)
        p12 = m1.predict(*data2)
    else:
        p1, p2 = m1.predict(data1, **kw), m2.predict(data2, **kw)
        p12 = m1.predict(data2, **kw)
    # the same model on rescaled observations: nothing but the normalisation is involved, so this is judged at
    # rounding level whatever the accuracy of the trainer's root search (cBMM)
    rt_same = rt * 10 if p1.dtype == np.float32 or any(
        np.asarray(d).dtype in (np.float32, np.complex64) for d in (data1 if isinstance(data1, tuple) else (data1,))
    ) else min(rt * 10, 1e-8)
    bad = tol.mismatch(p2, p1, rt * 10, what=f'{model} posterior: model(c*y) vs model(y)') or \
        tol.mismatch(p12, p1, rt_same, what=f'{model} predict(c*y) vs predict(y) of the same model')
    if bad:
        return bad
    if model == 'cacgmm':
        l1, l2 = m1.log_likelihood(data1), m1.log_likelihood(data2)
        if abs(l1 - l2) > rt * 10 * (1 + abs(l1)):
            return f'cacgmm log_likelihood changes under gains: {l1!r} vs {l2!r}'
    return None


def apply_gains(model, data, gains, stream='spatial'):
    g = np.asarray(gains)
    if model in M.INTEGRATION:
        obs, emb = data
        if stream == 'spatial':
            return (obs * g[:, None], emb)
        return (obs, emb * g[:, None].real)
    return data * g[:, None]


def run_small(key):
    model, D, gidx, its, stream, seed = (key[k] for k in ('model', 'D', 'gains', 'its', 'stream', 'seed'))
    N, K = 4, 2
    positive = model == 'vmfmm' or stream == 'embedding'
    gset = PGAINS if positive else CGAINS
    gains = np.array([gset[i] for i in gidx])
    cplx = model in M.COMPLEX_OBS
    lead = (1,) if model in M.INTEGRATION else ()
    y = A.generic_data(seed, lead + (N, D), 'c04s', model, D, complex_=cplx)
    if model in M.INTEGRATION:
        emb = A.generic_data(seed, lead + (N, 3), 'c04s-emb', model, complex_=False)
        if key.get('emb32'):
            emb = emb.astype(np.float32)     # mixed precision: double observation, single embedding
        data = (y, emb)
    else:
        data = y
    init = A.soft_affiliation(seed, lead, K, N, 'c04s', model)
    data2 = apply_gains(model, data, gains, stream)
    try:
        m1 = M.fit(model, data, init, its)
    except Exception as e:  # noqa
        return trivial('fit raises on this tiny data set: ' + type(e).__name__)
    try:
        m2 = M.fit(model, data2, init, its)
    except Exception as e:  # noqa
        if model == 'cbmm' and isinstance(e, (AssertionError, ValueError)):
            return trivial('cBMM guard: class scatter numerically rank deficient (eigenvalue <= 0 by rounding)')
        return viol(f'{model}: fit(c*y) raised {e!r} although fit(y) succeeded (gains {gains.tolist()})')
    rt = 1e-5 if model == 'cbmm' else tol.TIGHT * 100
    bad = compare_models(model, m1, m2, data, data2, lead + (K, N), rt)
    if bad and bad.startswith('TRIVIAL'):
        return trivial(bad[9:])
    if bad:
        return viol(bad + f' (gains {gains.tolist()})')
    # the fit_predict entry point
    try:
        tr = M.trainer(model)
        if model in M.INTEGRATION:
            p1 = tr.fit_predict(data[0], data[1], initialization=init, iterations=its)
            p2 = M.trainer(model).fit_predict(data2[0], data2[1], initialization=init, iterations=its)
        else:
            p1 = tr.fit_predict(data, initialization=init, iterations=its)
            p2 = M.trainer(model).fit_predict(data2, initialization=init, iterations=its)
    except Exception as e:  # noqa
        return viol(f'{model}: fit_predict raised {e!r} (gains {gains.tolist()})')
    bad = tol.mismatch(p2, p1, rt * 10, what=f'{model} fit_predict(c*y) vs fit_predict(y)')
    if bad:
        return viol(bad + f' (gains {gains.tolist()})')
    return ok(outcome=tol.digest(M.fields(model, m1)[sorted(M.fields(model, m1))[0]]), evals=2)


NEAR_ONE = ((1 + 3e-6, 1 - 2e-6, 1 + 1e-6, 1 - 4e-6, 1 + 2e-6, 1 - 1e-6),
            (1 + 8e-6, 1 + 7e-6, 1 + 9e-6, 1 + 6e-6, 1 + 8e-6, 1 + 7e-6),
            (1 - 1e-7, 1 + 1e-7, 1 - 2e-7, 1 + 2e-7, 1 - 3e-7, 1 + 3e-7),
            (1 + 1e-3, 1 - 1e-3, 1.0, 1.0, 1 + 1e-9, 1 - 1e-9))


def run_unit_layout(key):
    """(a) observations that already have unit norm and gains whose modulus is close to (not exactly) one;
    (b) the rescaled tensors handed over in another memory layout (Fortran order, permuted axes, strided,
    negative strides): the models may not depend on either."""
    model, D, its, variant, vidx, seed = (key[k] for k in ('model', 'D', 'its', 'variant', 'v', 'seed'))
    N, K = 6, 2
    if variant == 'large_n':
        N = (5000, 9001, 4097)[vidx]     # more frames than any internal block size, not a multiple of a power of two
    positive = model == 'vmfmm'
    cplx = model in M.COMPLEX_OBS
    integ = model in M.INTEGRATION
    lead = (2,) if integ else ()
    y = A.generic_data(seed, lead + (N, D), 'c04u', model, D, complex_=cplx)
    r = A.rng(seed, 'c04u-g', model, D, variant, vidx)
    if variant == 'near_one':
        y = y / np.linalg.norm(y, axis=-1, keepdims=True)
        mod = np.array(NEAR_ONE[vidx])
        gains = mod if positive else mod * np.exp(1j * r.uniform(0, 2 * np.pi, N))
        layout = 'C'
    else:
        layout = A.LAYOUTS[vidx] if variant == 'layout' else 'C'
        mod = 10.0 ** r.uniform(-3, 3, N)
        gains = mod if positive else mod * np.exp(1j * r.uniform(0, 2 * np.pi, N))
    if integ:
        emb = A.generic_data(seed, lead + (N, 3), 'c04u-emb', model, complex_=False)
        if model == 'vmfcacgmm' and variant == 'near_one':
            emb = emb / np.linalg.norm(emb, axis=-1, keepdims=True)
        data = (y, emb)
        eg = np.array(NEAR_ONE[vidx]) if variant == 'near_one' else 10.0 ** r.uniform(-3, 3, N)
        data2 = (A.relayout(y * gains[:, None], layout),
                 A.relayout(emb * eg[:, None] if model == 'vmfcacgmm' else emb, layout))
    else:
        data = y
        data2 = A.relayout(y * gains[:, None], layout)
    init = A.soft_affiliation(seed, lead, K, N, 'c04u', model)
    try:
        m1 = M.fit(model, data, init, its)
    except Exception as e:  # noqa
        return trivial('fit raises on this tiny data set: ' + type(e).__name__)
    try:
        m2 = M.fit(model, data2, init, its)
    except Exception as e:  # noqa
        if model == 'cbmm' and isinstance(e, (AssertionError, ValueError)):
            return trivial('cBMM guard: class scatter numerically rank deficient (eigenvalue <= 0 by rounding)')
        return viol(f'{model}: fit(c*y) raised {e!r} although fit(y) succeeded ({variant} {vidx})')
    rt = 1e-5 if model == 'cbmm' else tol.TIGHT * 100
    bad = compare_models(model, m1, m2, data, data2, lead + (K, N), rt)
    if bad and bad.startswith('TRIVIAL'):
        return trivial(bad[9:])
    if bad:
        return viol(bad + f' ({variant} {vidx}: {layout if variant != "near_one" else NEAR_ONE[vidx]})')
    return ok(outcome=tol.digest(M.fields(model, m1)[sorted(M.fields(model, m1))[0]]), evals=2)


def run_options(key):
    p = dict(key)
    seed = p.pop('seed')
    pos = tuple(p.pop('pos'))
    gi = tuple(p.pop('gi'))
    stream = p.pop('stream')
    p['lead'] = tuple(p['lead'])
    p['streamw'] = tuple(p['streamw'])
    if isinstance(p['wca'], list):
        p['wca'] = tuple(p['wca'])
    c = c01.build(p, seed)
    model, K, N, lead = c['model'], c['K'], c['N'], c['lead']
    positive = model in ('vmfmm',) or stream == 'embedding'
    gset = PGAINS if positive else CGAINS
    gains = np.ones(N, dtype=float if positive else complex)
    for q, g in zip(pos, gi):
        gains[q % N] = gset[g]
    if c['single']:
        with np.errstate(all='ignore'):
            a = np.abs(gains)
            gains = gains / a * np.clip(a, 1e-12, 1e12)
    data = c['data']
    data2 = apply_gains(model, data, gains, stream)
    if c['single']:
        data2 = tuple(x.astype(y.dtype) for x, y in zip(data2, data)) if c['integ'] else data2.astype(data.dtype)
    init, opts = c['init'], c['opts']
    if isinstance(init, int):
        return trivial('random start not applicable')
    try:
        m1 = M.fit(model, data, init, p['iterations'], **opts)
    except Exception as e:  # noqa
        return trivial('fit raises on this configuration: ' + type(e).__name__)
    try:
        m2 = M.fit(model, data2, init, p['iterations'], **opts)
    except Exception as e:  # noqa
        if model == 'cbmm' and isinstance(e, (AssertionError, ValueError)):
            return trivial('cBMM guard: class scatter numerically rank deficient (eigenvalue <= 0 by rounding)')
        return viol(f'{model}: fit(c*y) raised {e!r} although fit(y) succeeded')
    rt = 1e-5 if model == 'cbmm' else (5e-4 if c['single'] else tol.TIGHT * 1000)
    bad = compare_models(model, m1, m2, data, data2, lead + (K, N), rt, mask=c['mask'])
    if bad and bad.startswith('TRIVIAL'):
        return trivial(bad[9:])
    if bad:
        return viol(bad + f' (gains {gains[list(pos)].tolist()} at {list(pos)})')
    return ok(outcome=tol.digest(np.asarray(M.fields(model, m1)['weight'])), evals=2)


def run_single(key):
    """single-distribution trainers and log_pdf under gains."""
    d = impl.dist()
    fam, D, gidx, lead, seed = key['family'], key['D'], key['gains'], tuple(key['lead']), key['seed']
    N = len(gidx)
    positive = fam == 'vmf'
    gset = PGAINS if positive else CGAINS
    gains = np.array([gset[i] for i in gidx])
    y = A.generic_data(seed, lead + (N, D), 'c04single', fam, D, complex_=not positive)
    y2 = y * gains[:, None]
    try:
        if fam == 'cacg':
            f = lambda x: d.ComplexAngularCentralGaussianTrainer().fit(x, iterations=3)  # noqa
            fld = lambda m: dict(cov=M.canon_psd(m.covariance_eigenvectors, m.covariance_eigenvalues))  # noqa
        elif fam == 'watson':
            f = lambda x: d.ComplexWatsonTrainer().fit(x)  # noqa
            fld = lambda m: dict(mode=M.canon_mode(m.mode), kappa=np.asarray(m.concentration))  # noqa
        elif fam == 'bingham':
            f = lambda x: d.ComplexBinghamTrainer().fit(x)  # noqa
            fld = lambda m: dict(cov=M.canon_psd(m.covariance_eigenvectors, m.covariance_eigenvalues))  # noqa
        else:
            f = lambda x: d.VonMisesFisherTrainer().fit(x)  # noqa
            fld = lambda m: dict(mean=np.asarray(m.mean), kappa=np.asarray(m.concentration))  # noqa
        m1 = f(y)
    except Exception as e:  # noqa
        return trivial('trainer raises: ' + type(e).__name__)
    try:
        m2 = f(y2)
    except Exception as e:  # noqa
        return viol(f'{fam} trainer: fit(c*y) raised {e!r}')
    rt = 1e-5 if fam == 'bingham' else tol.TIGHT * 100
    a, b = fld(m1), fld(m2)
    for name in a:
        bad = tol.mismatch(b[name], a[name], rt * (100 if name in ('mode', 'mean') else 1),
                           what=f'{fam} trainer {name}: fit(c*y) vs fit(y)')
        if bad:
            return viol(bad + f' (gains {gains.tolist()})')
    # the same with per-observation weights (saliency argument of the single trainers)
    sal = 0.25 + A.rng(seed, 'c04sal', fam, D, lead).uniform(size=lead + (N,))
    kw = dict(iterations=3) if fam == 'cacg' else {}
    tr = {'cacg': d.ComplexAngularCentralGaussianTrainer, 'watson': d.ComplexWatsonTrainer,
          'bingham': d.ComplexBinghamTrainer, 'vmf': d.VonMisesFisherTrainer}[fam]
    try:
        s1 = tr().fit(y, saliency=sal, **kw)
    except Exception as e:  # noqa
        s1 = None
    if s1 is not None:
        try:
            s2 = tr().fit(y2, saliency=sal, **kw)
        except Exception as e:  # noqa
            return viol(f'{fam} trainer: fit(c*y, saliency) raised {e!r}')
        a_, b_ = fld(s1), fld(s2)
        for name in a_:
            bad = tol.mismatch(b_[name], a_[name], rt * (100 if name in ('mode', 'mean') else 1),
                               what=f'{fam} trainer with saliency, {name}: fit(c*y) vs fit(y)')
            if bad:
                return viol(bad + f' (gains {gains.tolist()})')
    # log_pdf: cACG and vMF normalise themselves (any gain); Watson/Bingham: unit-modulus gains
    if fam in ('cacg', 'vmf'):
        l1, l2 = m1.log_pdf(y), m1.log_pdf(y2)
    else:
        ph = gains / np.abs(gains)
        z = M.unit_rows(y)
        l1, l2 = m1.log_pdf(z), m1.log_pdf(z * ph[:, None])
    bad = tol.mismatch(l2, l1, rt * 100, what=f'{fam} log_pdf(c*y) vs log_pdf(y)')
    if bad:
        return viol(bad + f' (gains {gains.tolist()})')
    return ok(outcome=tol.digest(a[sorted(a)[0]]), evals=2)


def subchecks(tier, seed):
    thorough = tier == 'thorough'
    subs = []
    combos = list(itertools.product(range(7), repeat=4)) if thorough else \
        list(itertools.combinations_with_replacement(range(7), 4))

    def small_cases():
        for model, streams in (('cacgmm', ('spatial',)), ('cwmm', ('spatial',)), ('cbmm', ('spatial',)),
                               ('gcacgmm', ('spatial',)), ('vmfcacgmm', ('spatial', 'embedding')),
                               ('vmfmm', ('spatial',))):
            for stream in streams:
                for D in (2, 3):
                    for its in (1, 3):
                        for g in combos:
                            if model == 'cbmm' and (D == 3 or (its == 3 and not thorough)
                                                    or (not thorough and sum(g) % 3)):
                                continue
                            yield (model, D, g, its, stream, False, seed)
                            if model in M.INTEGRATION and stream == 'spatial' and (thorough or sum(g) % 2 == 0):
                                yield (model, D, g, its, stream, True, seed)
    subs.append(Sub('gain_fields_n4', ('model', 'D', 'gains', 'its', 'stream', 'emb32', 'seed'), small_cases,
                    run_small, bound=dict(gains='all assignments of 7 gains to 4 frames' +
                                          ('' if thorough else ' up to frame order'), N=4, K=2),
                    exhaustive=thorough))

    SP = c01.SPACE
    names = SP.names + ['pos', 'gi', 'stream', 'seed']
    positions = ((0,), (0, 1), (0, -1), (5, 6))
    gain_sets = ((4,), (5,), (3,), (6,), (4, 5), (5, 4), (1, 2), (6, 4), (5, 5))

    def opt_cases():
        seen = set()
        for its in (1, 3, 10):
            for K in (2, 3):
                for D in (3, 2, 8) if thorough else (3, 2):
                    for p in SP.deviations(1, fixed=dict(data='generic', iterations=its, K=K, D=D,
                                                         start='soft'), core=('model',)):
                        if p['model'] == 'gmm':
                            continue
                        if p['model'] == 'cbmm' and (its == 10 or K == 3):
                            continue
                        if p['single'] and its > 3:
                            continue
                        streams = ('spatial', 'embedding') if p['model'] == 'vmfcacgmm' else ('spatial',)
                        for stream in streams:
                            for pos in positions:
                                for gi in gain_sets:
                                    if len(gi) != len(pos):
                                        continue
                                    if not thorough and (its, K) not in ((3, 2), (1, 3), (10, 2)) and \
                                            (pos, gi) != ((0, 1), (4, 5)):
                                        continue
                                    t = SP.tup(p) + (pos, gi, stream, seed)
                                    if t not in seen:
                                        seen.add(t)
                                        yield t
    subs.append(Sub('gain_pairs_options', names, opt_cases, run_options,
                    bound=dict(deviations=1, positions=list(map(list, positions)), iterations=[1, 3, 10]),
                    min_nontrivial=300))

    def unit_cases():
        for model in ('cacgmm', 'cwmm', 'cbmm', 'gcacgmm', 'vmfcacgmm', 'vmfmm'):
            for D in (2, 3):
                for its in (1, 3):
                    if model == 'cbmm' and D == 3 and its == 3:
                        continue
                    for v in range(len(NEAR_ONE)):
                        yield (model, D, its, 'near_one', v, seed)
                    for v in range(1, len(A.LAYOUTS)):
                        yield (model, D, its, 'layout', v, seed)
                    if D == 3 and its == 1 and model != 'cbmm':
                        for v in range(3):
                            yield (model, D, its, 'large_n', v, seed)
    subs.append(Sub('unit_norm_inputs_and_layouts', ('model', 'D', 'its', 'variant', 'v', 'seed'), unit_cases,
                    run_unit_layout, bound=dict(near_one=[list(x) for x in NEAR_ONE], layouts=list(A.LAYOUTS[1:]))))

    def single_cases():
        for fam in ('cacg', 'watson', 'bingham', 'vmf'):
            for D in ((2, 3) if fam == 'bingham' else (2, 3, 5)):
                for lead in ((), (2,)):
                    for g in itertools.combinations_with_replacement(range(7), 4):
                        if fam == 'bingham' and (lead or sum(g) % 2) and not thorough:
                            continue
                        if D == 5 and len(g) < D:
                            g = g + (0, 3)
                        yield (fam, D, g, lead, seed)
    subs.append(Sub('single_trainers_and_log_pdf', ('family', 'D', 'gains', 'lead', 'seed'),
                    single_cases, run_single))
    return subs
