"""C10 — the PSD estimate is the mask-weighted mean outer product.

Full product of leading shapes x (D,T,K) triples x mask kinds x every valid placement
of sensor/source/time axes (positive and negative indices) x normalize; the defining
sum evaluated in loops (exact on Gaussian-integer data without normalisation)."""
import itertools

import numpy as np

from mc.core import Sub, ok, viol
from mc import alphabet as A
from mc import tol

LEVEL = 'exploration'
RULE = ('full product of leading shapes (0..3 axes of sizes 1,2) x (D,T,K) triples (equal and unequal '
        'sizes) x mask kinds x every placement of sensor_dim/source_dim/time_dim (both index signs) x '
        'normalize; condition_covariance on leading shapes x gamma')
ASSUMPTIONS = ['valid layouts as documented: time-only masks have the time axis last; source-axis masks have '
               'the rank of the observation with the time axis at the same index']

TRIPLES = ((1, 1, 1), (2, 2, 2), (2, 5, 3), (3, 2, 2), (3, 5, 5), (8, 64, 1), (2, 64, 2), (1, 5, 2),
           (2, 3, 5), (3, 3, 3))
LEADS = [()] + [t for n in (1, 2, 3) for t in itertools.product((1, 2), repeat=n)]


def _bf():
    from pb_bss.extraction import beamformer
    return beamformer


def make_obs(seed, lead, D, T, tag):
    """canonical layout (lead..., D, T); Gaussian-integer entries when small."""
    shape = tuple(lead) + (D, T)
    r = A.rng(seed, 'c10obs', shape, tag)
    if D <= 3 and T <= 5:
        vals = np.array(A.GI_COMPLEX)
        return vals[r.integers(0, len(vals), size=shape)].astype(np.complex128), True
    return A.cnormal(r, shape), False


def make_mask(seed, lead, K, T, kind, tag):
    r = A.rng(seed, 'c10mask', tuple(lead), K, T, kind, tag)
    src = kind.startswith('src')
    shape = tuple(lead) + ((K, T) if src else (T,))
    base = kind.split('_', 1)[1]
    if base == 'float':
        m = r.integers(0, 4, size=shape).astype(float) / 2.0
    elif base == 'bool':
        m = r.integers(0, 2, size=shape).astype(bool)
    elif base == 'zero':
        m = np.zeros(shape)
    elif base == 'onehot':
        m = np.zeros(shape)
        m[..., r.integers(0, T)] = 1.0
    elif base == 'x1000':
        m = r.integers(0, 4, size=shape).astype(float) / 2.0 * 1000.0
    elif base == 'f32small':
        # single-precision mask whose sum over time is far below the float32 machine epsilon (but far above 1e-10)
        m = (r.integers(1, 4, size=shape).astype(np.float32) * np.float32(1e-9))
    elif base == 'nearone':
        # a mask that is ALMOST normalised already: its sum over time is 1 + 3e-6 (an estimated posterior after
        # an approximate normalisation), not 1
        m = r.integers(1, 5, size=shape).astype(float)
        m = m / m.sum(-1, keepdims=True) * (1 + 3e-6)
    else:
        raise ValueError(kind)
    return m


def ref_psd(obs, mask, normalize, src):
    """obs canonical (lead..., D, T); mask (lead..., T) or (lead..., K, T) or None."""
    lead = obs.shape[:-2]
    D, T = obs.shape[-2:]
    if mask is None:
        out = np.zeros(lead + (D, D), complex)
        for idx in np.ndindex(*lead):
            for t in range(T):
                x = obs[idx][:, t]
                out[idx] += np.outer(x, x.conj())
            out[idx] /= T
        return out
    m = np.asarray(mask, dtype=float)
    if not src:
        m = m[..., None, :]
    K = m.shape[-2]
    out = np.zeros(lead + (K, D, D), complex)
    for idx in np.ndindex(*lead):
        for k in range(K):
            w = m[idx][k]
            den = max(float(w.sum()), 1e-10) if normalize else 1.0
            for t in range(T):
                x = obs[idx][:, t]
                out[idx + (k,)] += (w[t] / den) * np.outer(x, x.conj())
    return out if src else out[..., 0, :, :]


def run_psd(key):
    bf = _bf()
    lead, (D, T, K), kind, s, t, k, neg, normalize, seed = (
        tuple(key['lead']), key['dtk'], key['mask'], key['s'], key['t'], key['k'], key['neg'],
        key['normalize'], key['seed'])
    obs_c, exact = make_obs(seed, lead, D, T, kind)
    amp = key.get('amp', 1.0)
    obs_c = obs_c * amp
    nd = obs_c.ndim
    # move canonical axes (-2 sensor, -1 time) to positions s, t
    src_axes = list(range(nd - 2))
    order = [None] * nd
    order[s], order[t] = nd - 2, nd - 1
    it = iter(src_axes)
    for i in range(nd):
        if order[i] is None:
            order[i] = next(it)
    # negative axis indices are combined with transposed views of the canonical buffers (as a caller would pass
    # the result of moveaxis / swapaxes), positive ones with fresh C-contiguous arrays
    obs = np.transpose(np.array(obs_c), order) if neg else np.ascontiguousarray(np.transpose(obs_c, order))
    mask_c = None
    mask = None
    src = kind.startswith('src')
    if kind != 'none':
        mask_c = make_mask(seed, lead, K, T, kind, (D, s, t))
        if src:
            morder = [None] * nd
            morder[k], morder[t] = nd - 2, nd - 1
            it = iter(src_axes)
            for i in range(nd):
                if morder[i] is None:
                    morder[i] = next(it)
            mask = np.transpose(np.array(mask_c), morder) if neg else \
                np.ascontiguousarray(np.transpose(mask_c, morder))
        else:
            mask = mask_c.copy()
    kw = dict(sensor_dim=s - nd if neg else s, time_dim=t - nd if neg else t, normalize=normalize)
    if src or k is not None:
        kw['source_dim'] = k - nd if neg else k
    if key.get('omit'):
        # arguments that equal their documented defaults (sensor_dim=-2, source_dim=-2, time_dim=-1,
        # normalize=True) are left out of the call
        for name_, dflt in (('sensor_dim', nd - 2), ('source_dim', nd - 2), ('time_dim', nd - 1)):
            if name_ in kw and kw[name_] % nd == dflt:
                del kw[name_]
        if kw.get('normalize') is True:
            del kw['normalize']
    obs.setflags(write=False)
    snap_o = obs.copy()
    snap_m = None
    if mask is not None:
        mask.setflags(write=False)
        snap_m = mask.copy()
    try:
        got = bf.get_power_spectral_density_matrix(obs, mask, **kw)
    except Exception as e:  # noqa
        return viol(f'get_power_spectral_density_matrix raised {e!r} (obs {obs.shape}, mask '
                    f'{None if mask is None else mask.shape}, {kw})')
    if not np.array_equal(obs, snap_o) or (mask is not None and not np.array_equal(mask, snap_m)):
        return viol('caller arrays modified')
    want = ref_psd(obs_c, mask_c, normalize, src)
    if src and (k - nd) < -2:
        want = np.moveaxis(want, -3, k)   # documented: sources first / at the mask's source position
    got = np.asarray(got)
    if amp != 1.0:
        got, want = got / amp ** 2, want / amp ** 2     # judged relative to the level of the data
    if exact and (not normalize or kind == 'none') and kind not in ('time_x1000', 'src_x1000'):
        bad = tol.mismatch(got, want, 1e-14, what='PSD (Gaussian-integer data)')
    elif kind.endswith('f32small'):
        bad = tol.mismatch(got, want, 2e-6, what='PSD (single-precision mask)')   # the weights are float32
    else:
        bad = tol.mismatch(got, want, tol.TIGHT, what='PSD')
    if bad:
        return viol(bad + f' (obs {obs.shape}, mask {None if mask is None else mask.shape}, {kw})')
    herm = np.abs(got - np.swapaxes(got.conj(), -1, -2)).max(initial=0)
    if herm > 1e-12 * (1 + np.abs(got).max(initial=0)):
        return viol(f'PSD not Hermitian ({herm:.2e})')
    ev = np.linalg.eigvalsh((got + np.swapaxes(got.conj(), -1, -2)) / 2)
    tr = np.trace(got, axis1=-2, axis2=-1).real
    if (ev.min(-1) < -1e-12 * (1 + np.abs(tr))).any():
        return viol('PSD not positive semidefinite')
    if kind.endswith('zero') and (not np.isfinite(got).all() or np.abs(got).max(initial=0) != 0):
        return viol('all-zero mask does not give a finite zero matrix')
    if kind.endswith('float') and normalize:
        # invariance to positive rescaling of a normalised mask
        try:
            got2 = np.asarray(bf.get_power_spectral_density_matrix(obs, mask * 1000.0, **kw)) / amp ** 2
        except Exception as e:  # noqa
            return viol(f'rescaled mask raised {e!r}')
        nz = (mask_c.sum(-1) > 0)
        sel = np.broadcast_to(nz[..., None, None], want.shape if not (src and (k - nd) < -2)
                              else np.moveaxis(want, k, -3).shape)
        g1 = got if not (src and (k - nd) < -2) else np.moveaxis(got, k, -3)
        g2 = np.asarray(got2) if not (src and (k - nd) < -2) else np.moveaxis(np.asarray(got2), k, -3)
        if np.abs(g1[sel] - g2[sel]).max(initial=0) > 1e-9 * (1 + np.abs(g1).max(initial=0)):
            return viol('PSD changes under positive rescaling of the normalised mask')
    return ok(outcome=tol.digest(want))


def run_condition(key):
    bf = _bf()
    lead, D, gamma, seed = tuple(key['lead']), key['D'], key['gamma'], key['seed']
    x = np.zeros(lead + (D, D), complex)
    for idx in np.ndindex(*lead):
        x[idx] = A.hpd(seed, D, 1e3, 'c10cond', idx) * (1 + sum(idx))
        if key['kind'] == 'rank1':
            v = A.cnormal(A.rng(seed, 'c10r1', idx, D), (D,))
            x[idx] = np.outer(v, v.conj())
    amp = key['amp']
    x = x * amp
    lay = key.get('layout', 'C')
    if lay == 'adjoint_view':
        x = np.swapaxes(np.ascontiguousarray(np.swapaxes(x, -1, -2).conj()), -1, -2).conj()   # = x, as a view
    elif lay != 'C':
        x = A.relayout(x, lay)
    x.setflags(write=False)
    try:
        got = bf.condition_covariance(x, gamma)
    except Exception as e:  # noqa
        return viol(f'condition_covariance raised {e!r}')
    want = np.zeros_like(x)
    for idx in np.ndindex(*lead):
        want[idx] = (x[idx] + gamma * np.trace(x[idx]) / D * np.eye(D)) / (1 + gamma)
    if amp == 0:
        if not np.array_equal(np.asarray(got), want):
            return viol('condition_covariance of a zero matrix is not zero')
        return ok(outcome='zero')
    # compare relative to the level of the data
    got, want, x = np.asarray(got) / amp, want / amp, x / amp
    bad = tol.mismatch(got, want, tol.TIGHT, what=f'condition_covariance (data level {amp})')
    if bad:
        return viol(bad)
    t0, t1 = np.trace(x, axis1=-2, axis2=-1), np.trace(got, axis1=-2, axis2=-1)
    if np.abs(t0 - t1).max(initial=0) > 1e-9 * (1 + np.abs(t0).max(initial=0)):
        return viol('trace not preserved')
    ev = np.linalg.eigvalsh((got + np.swapaxes(np.conj(got), -1, -2)) / 2)
    if ev.min() < -1e-12 * (1 + np.abs(t0).max()):
        return viol('not positive semidefinite')
    return ok(outcome=tol.digest(want))


def subchecks(tier, seed):
    thorough = tier == 'thorough'
    subs = []
    kinds = ('none', 'time_float', 'time_bool', 'time_zero', 'time_onehot', 'time_x1000', 'time_f32small',
             'src_float', 'src_bool', 'src_zero', 'src_f32small', 'time_nearone', 'src_nearone')
    triples = TRIPLES if thorough else TRIPLES[:8]

    def cases():
        for lead in LEADS:
            nd = len(lead) + 2
            for dtk in triples:
                if not thorough and len(lead) == 3 and dtk[1] > 5:
                    continue
                for kind in kinds:
                    src = kind.startswith('src')
                    timeonly = kind.startswith('time')
                    for s in range(nd):
                        for t in range(nd):
                            if t == s or (timeonly and t != nd - 1):
                                continue
                            # a mask without source axis: source_dim is irrelevant, whatever the caller passes
                            ks = [k for k in range(nd) if k != t] if src else \
                                ([None] + (sorted({0, nd - 3}) if timeonly and nd >= 3 else []))
                            for k in ks:
                                for neg in (False, True):
                                    for normalize in (True, False):
                                        if not thorough and len(lead) == 3 and (neg != normalize):
                                            continue
                                        yield (lead, dtk, kind, s, t, k, neg, normalize, 1.0, False, seed)
                                        if (k == nd - 2 or s == nd - 2 or t == nd - 1) and len(lead) <= 2:
                                            yield (lead, dtk, kind, s, t, k, neg, normalize, 1.0, True, seed)
                                        if len(lead) <= 1 and neg and (thorough or dtk in (TRIPLES[2], TRIPLES[5])):
                                            for amp in (1e-8, 1e8, 1e-100):
                                                yield (lead, dtk, kind, s, t, k, neg, normalize, amp, False, seed)
    subs.append(Sub('psd_layouts', ('lead', 'dtk', 'mask', 's', 't', 'k', 'neg', 'normalize', 'amp', 'omit', 'seed'),
                    cases, run_psd,
                    bound=dict(leading_shapes=len(LEADS), triples=[list(t) for t in triples],
                               mask_kinds=list(kinds)), exhaustive=thorough))

    def cond_cases():
        for lead in LEADS[:7] + [(2, 2, 2)]:
            for D in (1, 2, 3, 8):
                for gamma in (0.0, 1e-6, 0.1, 10.0):
                    for kind in ('hpd', 'rank1'):
                        for amp in (1.0, 1e-12, 1e-30, 1e12, 0.0):
                            yield (lead, D, gamma, kind, amp, 'C', seed)
                        if D in (2, 3) and gamma in (0.1, 10.0):
                            for lay in ('F', 'perm', 'strided', 'neg', 'adjoint_view'):
                                yield (lead, D, gamma, kind, 1.0, lay, seed)
    subs.append(Sub('condition_covariance', ('lead', 'D', 'gamma', 'kind', 'amp', 'layout', 'seed'), cond_cases,
                    run_condition))
    return subs
