"""C07 — log_pdf is the logarithm of the named, normalised density.

Full product family x D x parameter grid x evaluation points x parameter stacks,
closed forms evaluated independently (loops, mpmath); 'integrates to one' by
product quadrature on the complex unit sphere (D=2), S^1/S^2 and R^1/R^2."""
import math

import numpy as np

from mc.core import Sub, ok, trivial, viol
from mc import alphabet as A
from mc import tol
from mc.refmodels import densities as R

LEVEL = 'exploration'
RULE = ('full product of family x D x parameter grid (condition numbers, concentrations, '
        'Bingham spectra) x evaluation points x parameter stacks; quadrature of exp(log_pdf)')
ASSUMPTIONS = ['mpmath special functions (besseli, hyp1f1) and numpy slogdet/solve as trusted base',
               'Bingham: float64 divided-difference formula is only compared when its cancellation '
               'factor is <= 1e6 (otherwise finiteness only)']

STACKS = ((), (2,), (2, 3))
KAPPAS = (1e-6, 1e-3, 0.03, 0.1, 0.3, 1.0, 2.0, 4.0, 7.0, 10.0, 12.0, 15.0, 20.0, 30.0, 50.0, 100.0,
          200.0, 350.0, 500.0)
CONDS = (1.0, 1e2, 1e4, 1e8)


def _dist():
    from mc import impl
    return impl.dist()


def _call(f):
    try:
        return f(), None
    except Exception as e:  # noqa
        return None, e


def _lay(key, *arrays):
    """the parameter / point arrays in the memory layout of the case (read-only)."""
    kind = key.get('layout', 'C')
    out = []
    for a in arrays:
        b = A.relayout(a, kind) if a.ndim >= 2 else np.array(a)
        b.setflags(write=False)
        out.append(b)
    return out


def _points_real(seed, D, mean, tag):
    r = A.rng(seed, 'pts', D, tag)
    e0 = np.zeros(D)
    e0[0] = 1
    return np.stack([mean, mean + e0, r.standard_normal(D), 10 * r.standard_normal(D)])


def _cov(seed, D, kind, tag, complex_=False):
    if kind == 'identity':
        return np.eye(D, dtype=complex if complex_ else float), 1.0
    if kind == 'diagonal':
        d = np.geomspace(1.0, 1e-3, D) if D > 1 else np.ones(1)
        return np.diag(d).astype(complex if complex_ else float), 1e3 if D > 1 else 1.0
    cond = float(kind)
    return A.hpd(seed, D, cond, tag, complex_=complex_), cond


# ---------------------------------------------------------------- Gaussians

def run_gaussian(key):
    d = _dist()
    fam, D, ck, mk, stack, seed = (key[k] for k in ('family', 'D', 'cov', 'mean', 'stack', 'seed'))
    stack = tuple(stack)
    means = np.zeros(stack + (D,))
    covs = np.zeros(stack + ((D, D) if fam == 'full' else (D,) if fam == 'diagonal' else ()))
    ys = np.zeros(stack + (4, D))
    cond = 1.0
    for idx in np.ndindex(*stack):
        r = A.rng(seed, 'gmean', D, mk, idx)
        m = {'zero': np.zeros(D), 'basis': np.eye(D)[-1], 'generic': r.standard_normal(D)}[mk]
        C, cond = _cov(seed, D, ck, ('g', idx))
        means[idx] = m
        if fam == 'full':
            covs[idx] = C
        elif fam == 'diagonal':
            covs[idx] = np.diag(C) if ck in ('identity', 'diagonal') else np.linalg.eigvalsh(C)
        else:
            covs[idx] = {'identity': 1.0, 'diagonal': 0.3}.get(ck, 1.0 / math.sqrt(float(ck) if ck not in ('identity', 'diagonal') else 1.0))
            covs[idx] *= 1.0 + 0.37 * sum((3 * i + 1) * v for i, v in enumerate(idx))   # differs per slice
        ys[idx] = _points_real(seed, D, m, idx)
    cls = {'full': d.Gaussian, 'diagonal': d.DiagonalGaussian, 'spherical': d.SphericalGaussian}[fam]
    means, covs, ys = _lay(key, means, covs, ys)
    mdt = key.get('mean_dtype', 'float64')
    if mdt != 'float64':
        # the stored mean in another dtype (exactly representable values): the evaluation points stay float64
        means = means.astype(mdt)
    got, e = _call(lambda: cls(mean=means, covariance=covs).log_pdf(ys))
    if e is not None:
        return viol(f'{cls.__name__}.log_pdf raised {e!r}')
    got = np.asarray(got)
    want = np.zeros(stack + (4,))
    for idx in np.ndindex(*stack):
        if fam == 'full':
            want[idx] = R.gaussian_logpdf(ys[idx], means[idx], covs[idx])
        elif fam == 'diagonal':
            want[idx] = R.diagonal_gaussian_logpdf(ys[idx], means[idx], covs[idx])
        else:
            want[idx] = R.spherical_gaussian_logpdf(ys[idx], means[idx], covs[idx])
    # the implementation is accurate to about 1e-16 * cond; 1e-14 * cond leaves two digits of margin
    bad = tol.mismatch(got, want, tol.TIGHT, scale=max(cond * 1e-5, 1.0) if fam == 'full' else 1.0,
                       what=f'{cls.__name__}.log_pdf')
    if bad:
        return viol(bad, got, want)
    return ok(outcome=tol.digest(want))


def run_cgauss(key):
    d = _dist()
    D, ck, stack, seed = (key[k] for k in ('D', 'cov', 'stack', 'seed'))
    stack = tuple(stack)
    covs = np.zeros(stack + (D, D), complex)
    ys = np.zeros(stack + (4, D), complex)
    cond = 1.0
    for idx in np.ndindex(*stack):
        covs[idx], cond = _cov(seed, D, ck, ('cg', idx), complex_=True)
        r = A.rng(seed, 'cgpts', D, idx)
        e0 = np.eye(D)[0]
        ys[idx] = np.stack([np.zeros(D), e0 * (1 + 1j), A.cnormal(r, (D,)), 10 * A.cnormal(r, (D,))])
    covs, ys = _lay(key, covs, ys)
    got, e = _call(lambda: d.ComplexCircularSymmetricGaussian(covariance=covs).log_pdf(ys))
    if e is not None:
        return viol(f'ComplexCircularSymmetricGaussian.log_pdf raised {e!r}')
    want = np.zeros(stack + (4,))
    for idx in np.ndindex(*stack):
        want[idx] = R.complex_gaussian_logpdf(ys[idx], covs[idx])
    bad = tol.mismatch(got, want, tol.TIGHT, scale=max(cond * 1e-3, 1.0), what='ccsg.log_pdf')
    if bad:
        return viol(bad, got, want)
    if D in (2, 3) and ck in ('identity', '100.0'):
        # many evaluation points (more than any block size): shape and values, point by point the same function
        Nl = 2051
        yl = np.zeros(stack + (Nl, D), complex)
        for idx in np.ndindex(*stack):
            yl[idx] = A.cnormal(A.rng(seed, 'cgpts-long', D, idx), (Nl, D))
        yl.setflags(write=False)
        gl, e = _call(lambda: d.ComplexCircularSymmetricGaussian(covariance=covs).log_pdf(yl))
        if e is not None:
            return viol(f'ComplexCircularSymmetricGaussian.log_pdf raised {e!r} for {Nl} points and stack {stack}')
        gl = np.asarray(gl)
        if gl.shape != stack + (Nl,):
            return viol(f'ccsg.log_pdf shape {gl.shape} != {stack + (Nl,)} for {Nl} evaluation points')
        for idx in np.ndindex(*stack):
            sel = [0, 1, 1023, 1024, 1025, 2047, 2048, 2050]
            wl = R.complex_gaussian_logpdf(yl[idx][sel], covs[idx])
            bad = tol.mismatch(gl[idx][sel], wl, tol.TIGHT, scale=max(cond * 1e-3, 1.0), what='ccsg.log_pdf (2051 points)')
            if bad:
                return viol(bad)
    return ok(outcome=tol.digest(want))


# ---------------------------------------------------------------- spherical families

def _sph_points(seed, D, mode, tag, complex_):
    r = A.rng(seed, 'sph', D, tag)
    # orthogonal to mode
    g = A.cnormal(r, (D,)) if complex_ else r.standard_normal(D)
    orth = g - mode * np.vdot(mode, g)
    orth = orth / np.linalg.norm(orth) if D > 1 else -mode     # D = 1: the other point of the sphere
    basis = np.eye(D)[0].astype(mode.dtype)
    gen = A.cnormal(r, (D,)) if complex_ else r.standard_normal(D)
    gen = gen / np.linalg.norm(gen)
    return np.stack([mode, orth, basis, gen])


def run_vmf(key):
    d = _dist()
    D, kappa, mk, stack, seed = (key[k] for k in ('D', 'kappa', 'mean', 'stack', 'seed'))
    stack = tuple(stack)
    means = np.zeros(stack + (D,))
    ks = np.zeros(stack)
    ys = np.zeros(stack + (4, D))
    for j, idx in enumerate(np.ndindex(*stack)):
        m = np.eye(D)[-1] if mk == 'basis' else A.unit_vectors(seed, 1, D, 'vmf', idx, complex_=False)[0]
        means[idx] = m
        ks[idx] = KAPPAS[(KAPPAS.index(kappa) + j) % len(KAPPAS)]
        # the density is evaluated at the direction of a point: lengths 1, 3, 1 + 4e-6 and 1e3
        ys[idx] = _sph_points(seed, D, m, idx, False) * [[1.0], [3.0], [1 + 4e-6], [1e3]]
    means, ks, ys = _lay(key, means, ks, ys)
    got, e = _call(lambda: d.VonMisesFisher(mean=means, concentration=ks).log_pdf(ys))
    if e is not None:
        return viol(f'VonMisesFisher.log_pdf raised {e!r}')
    want = np.zeros(stack + (4,))
    for idx in np.ndindex(*stack):
        want[idx] = R.vmf_logpdf(ys[idx], means[idx], float(ks[idx]))
    bad = tol.mismatch(got, want, tol.TIGHT, scale=10.0, what='vmf.log_pdf')
    if bad:
        return viol(bad, got, want)
    # all points ALMOST on the sphere (lengths within 1e-5 of one): still evaluated at their direction
    ys2 = np.array(ys)
    ys2 = ys2 / np.linalg.norm(ys2, axis=-1, keepdims=True) * (1 + 4e-6 * np.array([[1.0], [-1.0], [0.5], [2.0]]))
    ys2.setflags(write=False)
    got2, e = _call(lambda: d.VonMisesFisher(mean=means, concentration=ks).log_pdf(ys2))
    if e is not None:
        return viol(f'VonMisesFisher.log_pdf raised {e!r} on almost-unit points')
    bad = tol.mismatch(np.asarray(got2), want, tol.TIGHT, scale=10.0, what='vmf.log_pdf at points of length 1 +- 8e-6')
    if bad:
        return viol(bad, got2, want)
    return ok(outcome=tol.digest(want))


def run_watson(key):
    d = _dist()
    D, kappa, mk, stack, seed = (key[k] for k in ('D', 'kappa', 'mode', 'stack', 'seed'))
    stack = tuple(stack)
    modes = np.zeros(stack + (D,), complex)
    ks = np.zeros(stack)
    ys = np.zeros(stack + (4, D), complex)
    for j, idx in enumerate(np.ndindex(*stack)):
        m = np.eye(D)[-1].astype(complex) if mk == 'basis' else A.unit_vectors(seed, 1, D, 'wat', idx)[0]
        modes[idx] = m
        ks[idx] = KAPPAS[(KAPPAS.index(kappa) + j) % len(KAPPAS)]
        ys[idx] = _sph_points(seed, D, m, idx, True) * np.exp(1j * np.array([[0.0], [1.0], [2.0], [-0.7]]))
    modes, ks, ys = _lay(key, modes, ks, ys)
    got, e = _call(lambda: d.ComplexWatson(mode=modes, concentration=ks).log_pdf(ys))
    if e is not None:
        return viol(f'ComplexWatson.log_pdf raised {e!r}')
    want = np.zeros(stack + (4,))
    for idx in np.ndindex(*stack):
        want[idx] = R.watson_logpdf(ys[idx], modes[idx], float(ks[idx]))
    bad = tol.mismatch(got, want, tol.TIGHT, scale=10.0, what='watson.log_pdf')
    if not bad and kappa in (1.0, 10.0, 100.0):
        # new concentration assigned to the evaluated object
        mobj = d.ComplexWatson(mode=modes, concentration=ks)
        first, e = _call(lambda: mobj.log_pdf(ys))
        ks2 = np.asarray(ks) * 0.5 + 0.125
        mobj.concentration = ks2
        got2, e = _call(lambda: mobj.log_pdf(ys))
        if e is not None:
            return viol(f'ComplexWatson.log_pdf after re-assigning the concentration raised {e!r}')
        want2 = np.zeros(stack + (4,))
        for idx in np.ndindex(*stack):
            want2[idx] = R.watson_logpdf(ys[idx], modes[idx], float(ks2[idx]))
        bad = tol.mismatch(np.asarray(got2), want2, tol.TIGHT, scale=10.0,
                           what='watson.log_pdf after re-assigning the concentration')
    if bad:
        return viol(bad, got, want)
    return ok(outcome=tol.digest(want))


def bingham_spectra(D):
    out = {
        'gap1': -np.arange(D, dtype=float),
        'gap0.1': -0.1 * np.arange(D, dtype=float),
        'gap30': -30.0 * np.arange(D, dtype=float),
        'gap1e-3': -1e-3 * np.arange(D, dtype=float),
        'clustered': np.array([0.0] + [-(5.0 + 1e-3 * i) for i in range(D - 1)]),
        'shifted': 2.5 - 1.7 * np.arange(D, dtype=float),
        # ML fit of a scatter matrix with a vanishing eigenvalue: one huge concentration next to moderate ones
        'huge_tail': np.array([0.0] + [-6.7 * i for i in range(1, D - 1)] + [-3.68e19]),
        'huge_tail2': np.array([0.0] + [-7.04 - i for i in range(D - 2)] + [-8.3e16]),
    }
    return out


def run_bingham(key):
    d = _dist()
    D, sk, uk, stack, seed = (key[k] for k in ('D', 'spectrum', 'U', 'stack', 'seed'))
    stack = tuple(stack)
    lam0 = bingham_spectra(D)[sk]
    Us = np.zeros(stack + (D, D), complex)
    lams = np.zeros(stack + (D,))
    ys = np.zeros(stack + (4, D), complex)
    for j, idx in enumerate(np.ndindex(*stack)):
        U = np.eye(D, dtype=complex) if uk == 'identity' else A.unitary(seed, D, 'bing', idx)
        Us[idx] = U
        lams[idx] = np.roll(lam0, j)  # any order of the eigenvalues
        ys[idx] = _sph_points(seed, D, U[:, 0], idx, True)
    amp = R.bingham_amplification(lam0)
    Us, lams, ys = _lay(key, Us, lams, ys)
    model = d.ComplexBingham(covariance_eigenvectors=Us, covariance_eigenvalues=lams)
    got, e = _call(lambda: model.log_pdf(ys))
    if e is not None:
        return viol(f'ComplexBingham.log_pdf raised {e!r}')
    got = np.asarray(got)
    again, e = _call(lambda: model.log_pdf(ys))
    if e is not None or not np.array_equal(np.asarray(again), got, equal_nan=True):
        return viol('ComplexBingham.log_pdf: a second call on the same model gives a different result')
    if not np.array_equal(np.asarray(model.covariance_eigenvalues), lams):
        return viol('ComplexBingham.log_pdf modified the stored eigenvalues')
    if got.shape != stack + (4,):
        return viol(f'shape {got.shape} != {stack + (4,)}')
    if amp > 1e6:
        if not np.isfinite(got).all():
            return viol('non-finite log_pdf', got)
        return trivial(f'float64 normaliser cancellation factor {amp:.1e} > 1e6')
    want = np.zeros(stack + (4,))
    for idx in np.ndindex(*stack):
        want[idx] = R.bingham_logpdf(ys[idx], Us[idx], lams[idx])
    # y^H U diag(l) U^H y is evaluated to eps * max|l| at best when U is not a permutation
    cond = 0.0 if uk == 'identity' else 1e-6 * float(np.abs(lam0).max())
    bad = tol.mismatch(got, want, tol.TIGHT, scale=10 * max(amp, 1.0) + cond, what='bingham.log_pdf')
    if bad:
        return viol(bad, got, want)
    if sk in ('gap1', 'gap0.1', 'shifted'):
        # the density is that of the parameters stored NOW: new eigenvalues assigned to the already evaluated
        # object (and to a deep copy of it) are honoured by the next evaluation
        import copy
        lam2 = np.array(lams) * 0.5 - 0.25
        for label, obj in (('same object', model), ('deep copy', copy.deepcopy(model))):
            obj.covariance_eigenvalues = lam2.copy()
            got2, e = _call(lambda: obj.log_pdf(ys))
            if e is not None:
                return viol(f'ComplexBingham.log_pdf after re-assigning the eigenvalues ({label}) raised {e!r}')
            want2 = np.zeros(stack + (4,))
            for idx in np.ndindex(*stack):
                want2[idx] = R.bingham_logpdf(ys[idx], Us[idx], lam2[idx])
            amp2 = R.bingham_amplification(lam0 * 0.5 - 0.25)
            bad = tol.mismatch(np.asarray(got2), want2, tol.TIGHT, scale=10 * max(amp2, 1.0) + cond,
                               what=f'bingham.log_pdf after re-assigning the eigenvalues ({label})')
            if bad:
                return viol(bad, got2, want2)
    return ok(outcome=tol.digest(want))


def run_cacg(key):
    d = _dist()
    D, ck, stack, seed = (key[k] for k in ('D', 'cov', 'stack', 'seed'))
    stack = tuple(stack)
    Us = np.zeros(stack + (D, D), complex)
    lams = np.zeros(stack + (D,))
    ys = np.zeros(stack + (4, D), complex)
    cond = 1.0
    for idx in np.ndindex(*stack):
        C, cond = _cov(seed, D, ck, ('cacg', idx), complex_=True)
        lam, U = np.linalg.eigh(C)
        # the density does not depend on the overall scale of the stored eigenvalues
        Us[idx], lams[idx] = U, lam / lam.max() * key.get('scale', 1.0)
        ys[idx] = _sph_points(seed, D, U[:, -1], idx, True) * [[1.0], [1e-50], [1e50 * 1j], [-3.0]]
    Us, lams, ys = _lay(key, Us, lams, ys)
    got, e = _call(lambda: d.ComplexAngularCentralGaussian(
        covariance_eigenvectors=Us, covariance_eigenvalues=lams).log_pdf(ys))
    if e is not None:
        return viol(f'ComplexAngularCentralGaussian.log_pdf raised {e!r}')
    want = np.zeros(stack + (4,))
    for idx in np.ndindex(*stack):
        want[idx], _ = R.cacg_logpdf(ys[idx], Us[idx], lams[idx])
    bad = tol.mismatch(got, want, tol.TIGHT, scale=max(cond * 1e-3, 1.0), what='cacg.log_pdf')
    if bad:
        return viol(bad, got, want)
    return ok(outcome=tol.digest(want))


# ---------------------------------------------------------------- integrates to one

def _csphere2_nodes(nt=240, na=12, nd=360):
    x, w = np.polynomial.legendre.leggauss(nt)
    th = (x + 1) * math.pi / 4
    wt = w * math.pi / 4
    al = np.arange(na) * 2 * math.pi / na
    de = np.arange(nd) * 2 * math.pi / nd
    T, Al, De = np.meshgrid(th, al, de, indexing='ij')
    z = np.stack([np.cos(T) * np.exp(1j * Al), np.sin(T) * np.exp(1j * (Al + De))], -1).reshape(-1, 2)
    wgt = (wt[:, None, None] * np.sin(T) * np.cos(T) * (2 * math.pi / na) * (2 * math.pi / nd)).reshape(-1)
    return z, wgt


def _csphere3_nodes(n1=120, n2=60, na=4, nb=6, ng=6):
    x1, w1 = np.polynomial.legendre.leggauss(n1)
    x2, w2 = np.polynomial.legendre.leggauss(n2)
    t1, t2 = (x1 + 1) * math.pi / 4, (x2 + 1) * math.pi / 4
    w1, w2 = w1 * math.pi / 4, w2 * math.pi / 4
    al = np.arange(na) * 2 * math.pi / na
    be = np.arange(nb) * 2 * math.pi / nb
    ga = np.arange(ng) * 2 * math.pi / ng
    T1, T2, Al, Be, Ga = np.meshgrid(t1, t2, al, be, ga, indexing='ij')
    z = np.stack([np.cos(T1) * np.exp(1j * Al), np.sin(T1) * np.cos(T2) * np.exp(1j * Be),
                  np.sin(T1) * np.sin(T2) * np.exp(1j * Ga)], -1).reshape(-1, 3)
    wgt = (w1[:, None, None, None, None] * w2[None, :, None, None, None]
           * np.cos(T1) * np.sin(T1) ** 3 * np.cos(T2) * np.sin(T2)
           * (2 * math.pi / na) * (2 * math.pi / nb) * (2 * math.pi / ng)).reshape(-1)
    return z, wgt


_NODES = {}


def run_integral(key):
    d = _dist()
    fam, param, mk, seed = key['family'], key['param'], key['mode'], key['seed']
    if fam in ('watson3', 'bingham3', 'cacg3'):
        if 'c3' not in _NODES:
            _NODES['c3'] = _csphere3_nodes()
        z, w = _NODES['c3']
        U = np.eye(3, dtype=complex) if mk == 'basis' else A.unitary(seed, 3, 'int3', fam)
        z = z @ U.T
        if fam == 'watson3':
            model = d.ComplexWatson(mode=U[:, 0].copy(), concentration=np.array(float(param)))
            target = 1.0
        elif fam == 'bingham3':
            g = float(param)
            model = d.ComplexBingham(covariance_eigenvectors=U,
                                     covariance_eigenvalues=np.array([0.0, -g, -2.5 * g]))
            target = 1.0
        else:
            lam = np.array([1.0, 1.0 / math.sqrt(float(param)), 1.0 / float(param)])
            model = d.ComplexAngularCentralGaussian(covariance_eigenvectors=U, covariance_eigenvalues=lam)
            target = R.sphere_area_complex(3)
        lp, e = _call(lambda: model.log_pdf(z))
    elif fam in ('watson', 'bingham', 'cacg'):
        if 'c2' not in _NODES:
            _NODES['c2'] = _csphere2_nodes()
        z, w = _NODES['c2']
        U = np.eye(2, dtype=complex) if mk == 'basis' else A.unitary(seed, 2, 'int', fam)
        # the sphere measure is invariant under unitary maps: rotate the node set so that
        # its pole (where Gauss-Legendre nodes are dense) sits at the density's peak
        z = z @ U.T
        if fam == 'watson':
            model = d.ComplexWatson(mode=U[:, 0].copy(), concentration=np.array(float(param)))
            target = 1.0
        elif fam == 'bingham':
            model = d.ComplexBingham(covariance_eigenvectors=U,
                                     covariance_eigenvalues=np.array([0.0, -float(param)]))
            target = 1.0
        else:
            lam = np.array([1.0, 1.0 / float(param)])
            model = d.ComplexAngularCentralGaussian(covariance_eigenvectors=U,
                                                    covariance_eigenvalues=lam)
            target = R.sphere_area_complex(2)
        lp, e = _call(lambda: model.log_pdf(z))
    elif fam == 'vmf2':
        n = 4096
        a = np.arange(n) * 2 * math.pi / n
        z = np.stack([np.cos(a), np.sin(a)], -1)
        w = np.full(n, 2 * math.pi / n)
        m = np.array([1.0, 0]) if mk == 'basis' else A.unit_vectors(seed, 1, 2, 'int', complex_=False)[0]
        model = d.VonMisesFisher(mean=m, concentration=np.array(float(param)))
        target = 1.0
        lp, e = _call(lambda: model.log_pdf(z))
    elif fam == 'vmf3':
        x, wx = np.polynomial.legendre.leggauss(400)
        nphi = 256
        ph = np.arange(nphi) * 2 * math.pi / nphi
        X, P = np.meshgrid(x, ph, indexing='ij')
        s = np.sqrt(1 - X ** 2)
        m = np.array([0, 0, 1.0]) if mk == 'basis' else A.unit_vectors(seed, 1, 3, 'int', complex_=False)[0]
        # rotate the grid so that the pole is at the mean (nodes cluster where the mass is)
        q, _ = np.linalg.qr(np.stack([m, *np.eye(3)[:2]], 1))
        q = q * np.sign(q[:, 0] @ m)
        pts = np.stack([X, s * np.cos(P), s * np.sin(P)], -1).reshape(-1, 3) @ q.T
        z, w = pts, (wx[:, None] * np.full(nphi, 2 * math.pi / nphi)[None]).reshape(-1)
        model = d.VonMisesFisher(mean=m, concentration=np.array(float(param)))
        target = 1.0
        lp, e = _call(lambda: model.log_pdf(z))
    elif fam in ('gauss1', 'gauss2', 'diag2', 'sph2', 'cgauss1'):
        D = 1 if fam.endswith('1') else 2
        r = A.rng(seed, 'gint', fam, param)
        g = np.arange(-12, 12.0001, 0.05)
        if fam == 'cgauss1':
            C = np.array([[float(param)]], complex)
            X, Y = np.meshgrid(g, g, indexing='ij')
            z = ((X + 1j * Y) * math.sqrt(float(param) / 2)).reshape(-1, 1)
            w = np.full(z.shape[0], 0.05 ** 2 * float(param) / 2)
            model = d.ComplexCircularSymmetricGaussian(covariance=C)
        else:
            mean = r.standard_normal(D)
            C = A.hpd(seed, D, float(param), 'gint', complex_=False) if D == 2 else np.array([[float(param)]])
            if fam == 'diag2':
                C = np.diag(np.diag(C))
            if fam == 'sph2':
                C = np.eye(2) * float(param) ** -0.5
            lam, U = np.linalg.eigh(C)
            if D == 1:
                x = g[:, None]
            else:
                X, Y = np.meshgrid(g, g, indexing='ij')
                x = np.stack([X, Y], -1).reshape(-1, 2)
            z = mean + (x * np.sqrt(lam)) @ U.T
            w = np.full(z.shape[0], 0.05 ** D * math.sqrt(float(np.prod(lam))))
            if fam in ('gauss1', 'gauss2'):
                model = d.Gaussian(mean=mean, covariance=C)
            elif fam == 'diag2':
                model = d.DiagonalGaussian(mean=mean, covariance=np.diag(C).copy())
            else:
                model = d.SphericalGaussian(mean=mean, covariance=np.array(C[0, 0]))
        target = 1.0
        lp, e = _call(lambda: model.log_pdf(z))
    else:
        raise ValueError(fam)
    if e is not None:
        return viol(f'{fam}: log_pdf raised {e!r}')
    lp = np.asarray(lp)
    if lp.shape != (z.shape[0],):
        return viol(f'{fam}: log_pdf shape {lp.shape} for {z.shape[0]} points')
    val = float(np.sum(np.exp(lp) * w))
    if not abs(val - target) <= 2e-6 * target:
        return viol(f'{fam}({param},{mk}): integral of exp(log_pdf) = {val!r}, expected {target!r}',
                    val, target)
    return ok(outcome=f'{fam}:{param}:{round(val / target, 7)}', detail=dict(integral=val, target=target))


# ---------------------------------------------------------------- sub-checks

def subchecks(tier, seed):
    thorough = tier == 'thorough'
    subs = []
    global KAPPAS, STACKS
    conds = CONDS
    if thorough:
        KAPPAS = tuple(sorted(set(KAPPAS) | {float(f'{k:.3g}') for k in np.geomspace(1e-6, 500, 70)}))
        STACKS = ((), (2,), (2, 3), (3, 2, 2))
        conds = (1.0, 10.0, 1e2, 1e3, 1e4, 1e5, 1e6, 1e7, 1e8)
    covkinds = ('identity', 'diagonal') + tuple(str(c) for c in conds[1:])

    def layouts(stack, D, also=True):
        # other memory layouts of the parameter and point arrays: only where they differ from C order
        if len(stack) >= 2 and also and (thorough or D in (1, 3, 8)):
            return ('C', 'F', 'perm')
        return ('C',)

    def gauss_cases():
        for fam in ('full', 'diagonal', 'spherical'):
            for D in range(1, 9):
                for ck in covkinds:
                    if D == 1 and ck not in ('identity', 'diagonal'):
                        continue
                    for mk in ('zero', 'basis', 'generic'):
                        for stack in STACKS:
                            for lay in layouts(stack, D):
                                yield (fam, D, ck, mk, stack, lay, 'float64', seed)
                            if mk in ('zero', 'basis') and ck in ('identity', '100.0') and D in (1, 3):
                                for mdt in ('int64', 'float32'):
                                    yield (fam, D, ck, mk, stack, 'C', mdt, seed)
    subs.append(Sub('gaussian', ('family', 'D', 'cov', 'mean', 'stack', 'layout', 'mean_dtype', 'seed'), gauss_cases,
                    run_gaussian, bound=dict(D='1..8', cond=list(CONDS), stacks=list(map(list, STACKS)))))

    def cg_cases():
        for D in range(1, 9):
            for ck in covkinds:
                if D == 1 and ck not in ('identity', 'diagonal'):
                    continue
                for stack in STACKS:
                    for lay in layouts(stack, D):
                        yield (D, ck, stack, lay, seed)
    subs.append(Sub('complex_gaussian', ('D', 'cov', 'stack', 'layout', 'seed'), cg_cases, run_cgauss))

    def vmf_cases():
        for D in range(1, 9):     # D = 1: the two-point sphere {-1, +1}
            for k in KAPPAS:
                for mk in ('basis', 'generic'):
                    for stack in STACKS:
                        for lay in layouts(stack, D, k in (1.0, 100.0)):
                            yield (D, k, mk, stack, lay, seed)
    subs.append(Sub('von_mises_fisher', ('D', 'kappa', 'mean', 'stack', 'layout', 'seed'), vmf_cases, run_vmf))

    def wat_cases():
        for D in range(2, 7):
            for k in KAPPAS:
                for mk in ('basis', 'generic'):
                    for stack in STACKS:
                        for lay in layouts(stack, D, k in (1.0, 100.0)):
                            yield (D, k, mk, stack, lay, seed)
    subs.append(Sub('complex_watson', ('D', 'kappa', 'mode', 'stack', 'layout', 'seed'), wat_cases, run_watson))

    def bing_cases():
        for D in range(2, 7):
            for sk in bingham_spectra(D):
                for uk in ('identity', 'generic'):
                    for stack in STACKS:
                        for lay in layouts(stack, D):
                            yield (D, sk, uk, stack, lay, seed)
    subs.append(Sub('complex_bingham', ('D', 'spectrum', 'U', 'stack', 'layout', 'seed'), bing_cases, run_bingham))

    def cacg_cases():
        for D in range(2, 7):
            for ck in covkinds:
                for stack in STACKS:
                    for lay in layouts(stack, D):
                        for scale in (1.0, 1e-12, 1e-15, 1e12) if lay == 'C' else (1.0,):
                            yield (D, ck, stack, lay, scale, seed)
    subs.append(Sub('cacg', ('D', 'cov', 'stack', 'layout', 'scale', 'seed'), cacg_cases, run_cacg))

    def int_cases():
        for mk in ('basis', 'generic'):
            for k in (1e-3, 0.3, 1.0, 3.0, 10.0, 12.0, 15.0, 20.0, 30.0, 60.0, 100.0, 250.0, 500.0):
                yield ('watson', k, mk, seed)
                yield ('vmf2', k, mk, seed)
                yield ('vmf3', k, mk, seed)
            for g in (1e-3, 1.0, 30.0, 300.0):
                yield ('bingham', g, mk, seed)
            for c in (1.0, 1e2, 1e4):
                yield ('cacg', c, mk, seed)
        for c in (1.0, 1e2, 1e4):
            for fam in ('gauss1', 'gauss2', 'diag2', 'sph2', 'cgauss1'):
                yield (fam, c, 'generic', seed)
        if thorough:
            for mk in ('basis', 'generic'):
                for k in (1e-3, 1.0, 5.0, 12.0, 20.0, 50.0, 150.0):
                    yield ('watson3', k, mk, seed)
                for g in (1e-3, 0.5, 3.0, 12.0):
                    yield ('bingham3', g, mk, seed)
                for c in (1.0, 10.0, 1e2):
                    yield ('cacg3', c, mk, seed)
    subs.append(Sub('integrates_to_one', ('family', 'param', 'mode', 'seed'), int_cases, run_integral,
                    bound=dict(quadrature='complex unit sphere D=2: 240 GL x 12 x 360 trapezoid nodes; '
                               'S1 4096; S2 400 GL x 256; R^1/R^2 rotated trapezoid grid step 0.05 sigma'),
                    min_outcomes=2))
    return subs
