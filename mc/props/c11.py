"""C11 — MVDR, LCMV and Wiener beamformers satisfy their constraints and optimality.

Full product D x F x K x steering kind x noise PSD kind x target power x reference
channel x distortion weight x scale factors; constraints, the complete first-order
optimality test, explicit competitors and closed forms computed in loops."""
import numpy as np

from mc.core import Sub, ok, viol
from mc import alphabet as A
from mc import tol

LEVEL = 'exploration'
RULE = ('full product of D{2,3,5,8} x F{1,2,5(,32)} x K{1,2,3} x steering {basis, generic, generic*1e3} x noise '
        'PSD {identity, diagonal 1e6, generic cond 1, 1e3, 1e6} x target power {1e-3,1,1e3} x reference '
        '{each, automatic} x mu {0,.5,1,100} x scale factors')
ASSUMPTIONS = ['tolerances scale with the known condition number of the atoms (1e-12*cond relative)',
               'LCMV response is cast to complex64 by the library: constraint checked to 1e-6']


def _bf():
    from pb_bss.extraction import beamformer
    return beamformer


def steering(seed, K, F, D, kind):
    a = np.zeros((K, F, D), complex)
    for k in range(K):
        for f in range(F):
            if kind == 'basis':
                a[k, f, (k + f) % D] = 1.0
                if K > 1 or F > 1:
                    a[k, f, (k + f + 1) % D] += 0.25j * (1 + k)
            else:
                a[k, f] = A.unit_vectors(seed, 1, D, 'c11a', k, f)[0] * np.sqrt(D)
    if kind == 'generic1e3':
        a = a * 1e3
    return a


def noise_psd(seed, F, D, kind):
    if kind in ('identity_real', 'sinc_real'):
        # noise PSDs stored with a real dtype (white noise / diffuse-field coherence matrix)
        out = np.zeros((F, D, D), float)
        ii = np.abs(np.arange(D)[:, None] - np.arange(D)[None, :])
        for f in range(F):
            out[f] = np.eye(D) * (1 + f) if kind == 'identity_real' else \
                np.sinc(0.35 * (f + 1) * ii) + 0.05 * np.eye(D)
        cond = float(max(np.linalg.cond(out[f]) for f in range(F)))
        return out, cond
    out = np.zeros((F, D, D), complex)
    cond = 1.0
    for f in range(F):
        if kind == 'identity':
            out[f] = np.eye(D) * (1 + f)
        elif kind == 'diag1e6':
            out[f] = np.diag(np.geomspace(1, 1e-6, D))
            cond = 1e6
        else:
            cond = float(kind)
            out[f] = A.hpd(seed, D, cond, 'c11n', f) * (1 + 0.5 * f)
    return out, cond


def null_basis(a):
    """orthonormal basis of {v : a^H v = 0}."""
    D = a.shape[0]
    q, _ = np.linalg.qr(np.concatenate([a[:, None], np.eye(D, dtype=complex)], axis=1))
    return q[:, 1:D]


def run_mvdr(key):
    bf = _bf()
    D, F, K, sk, nk, stack, seed = (key[k] for k in ('D', 'F', 'K', 'steer', 'noise', 'stack', 'seed'))
    a = steering(seed, K, F, D, sk)
    Phi, cond = noise_psd(seed, F, D, nk)
    a = a * key.get('a_scale', 1.0)
    Phi = Phi * key.get('p_scale', 1.0)
    if stack == 'single':
        atf, psd = a[0, 0], Phi[0]
    elif stack == 'bins':
        atf, psd = a[0], Phi
    else:
        atf, psd = a, Phi
    atf = A.relayout(atf, key.get('layout', 'C'))
    atf.setflags(write=False)
    psd = A.relayout(psd, key.get('layout', 'C'))
    psd.setflags(write=False)
    try:
        w = bf.get_mvdr_vector(atf, psd)
    except Exception as e:  # noqa
        return viol(f'get_mvdr_vector(atf {atf.shape}, psd {psd.shape}) raised {e!r}')
    w = np.asarray(w)
    if w.shape != atf.shape:
        return viol(f'shape {w.shape} != {atf.shape}')
    A3 = a if stack == 'stack' else a[:1] if stack == 'bins' else a[:1, :1]
    W3 = w.reshape(A3.shape)
    rt = 1e-12 * cond * 100
    for k in range(A3.shape[0]):
        for f in range(A3.shape[1]):
            av, wv, P = A3[k, f], W3[k, f], Phi[f]
            if not np.isfinite(wv).all():
                return viol('non-finite beamformer')
            if abs(np.vdot(wv, av) - 1) > rt + 1e-10:
                return viol(f'distortionless constraint violated: w^H a = {np.vdot(wv, av)!r}')
            # complete first-order optimality: v^H Phi w = 0 for every v with a^H v = 0
            V = null_basis(av)
            g = V.conj().T @ (P @ wv)
            scale = np.linalg.norm(P, 2) * np.linalg.norm(wv)
            if np.abs(g).max() > rt * scale * 10 + 1e-12 * scale:
                return viol(f'not optimal: gradient along the constraint {np.abs(g).max():.3e} (scale {scale:.3e})')
            p0 = float(np.real(wv.conj() @ P @ wv))
            for j in range(V.shape[1]):
                for eps in (1e-2, -1e-2, 1e-2j):
                    c = wv + eps * np.linalg.norm(wv) * V[:, j]
                    pc = float(np.real(c.conj() @ P @ c))
                    if pc < p0 * (1 - 1e-9):
                        return viol(f'a distortionless competitor has less noise power: {pc!r} < {p0!r}')
            # closed form
            x = np.linalg.solve(P, av)
            ref = x / (av.conj() @ x)
            nr = np.linalg.norm(ref)
            bad = tol.mismatch(wv / nr, ref / nr, rt, what='MVDR vs Phi^-1 a / (a^H Phi^-1 a) (relative to |w|)')
            if bad:
                return viol(bad)
    return ok(outcome=tol.digest(w))


def run_lcmv(key):
    bf = _bf()
    D, F, K, sk, nk, resp, seed = (key[k] for k in ('D', 'F', 'K', 'steer', 'noise', 'resp', 'seed'))
    if K > D:
        return ok(outcome='skip')
    a = steering(seed, K, F, D, 'generic' if sk == 'basis' and K > 1 else sk)
    Phi, cond = noise_psd(seed, F, D, nk)
    r = np.array(resp[:K], dtype=float)
    a, Phi = A.relayout(a, key.get('layout', 'C')), A.relayout(Phi, key.get('layout', 'C'))
    a.setflags(write=False)
    Phi.setflags(write=False)
    try:
        w = np.asarray(bf.get_lcmv_vector(a, r, Phi))
    except Exception as e:  # noqa
        return viol(f'get_lcmv_vector raised {e!r}')
    if w.shape != (F, D):
        return viol(f'shape {w.shape} != {(F, D)}')
    for f in range(F):
        for k in range(K):
            v = np.vdot(w[f], a[k, f])
            if abs(v - r[k]) > 1e-6 * (1 + cond * 1e-6) * max(1.0, np.abs(r).max()):
                return viol(f'constraint w^H a_{k} = {v!r} != {r[k]}')
        Am = a[:, f, :].T
        X = np.linalg.solve(Phi[f], Am)
        ref = X @ np.linalg.solve(Am.conj().T @ X, r.astype(complex))
        bad = tol.mismatch(w[f], ref, 1e-6 * (1 + cond * 1e-6), what='LCMV vs closed form')
        if bad:
            return viol(bad)
    return ok(outcome=tol.digest(w))


def lib_snr(mat, Pxx, Pnn, eps):
    F, D, _ = mat.shape
    out = []
    for r in range(D):
        num = den = 0.0
        for f in range(F):
            w = mat[f][:, r]
            num += (w.conj() @ Pxx[f] @ w)
            den += (w.conj() @ Pnn[f] @ w)
        out.append((num / max(den.real, eps) if abs(den.imag) < 1e300 else np.nan))
    return np.real(np.array(out))


def run_souden_wmwf(key):
    bf = _bf()
    D, F, sk, nk, sigma, ref, mu, seed = (key[k] for k in ('D', 'F', 'steer', 'noise', 'sigma', 'ref', 'mu', 'seed'))
    a = steering(seed, 1, F, D, sk)[0]
    Pnn, cond = noise_psd(seed, F, D, nk)
    Pxx = np.stack([sigma * (1 + f) * np.outer(a[f], a[f].conj()) for f in range(F)])
    Pxx, Pnn = A.relayout(Pxx, key.get('layout', 'C')), A.relayout(Pnn, key.get('layout', 'C'))
    Pxx.setflags(write=False)
    Pnn.setflags(write=False)
    rt = 1e-12 * cond * 1e3 + 1e-10
    refs = list(range(D)) if ref == 'each' else [None]
    outs = []
    for rc in refs:
        try:
            ws, chosen = bf.get_mvdr_vector_souden(Pxx, Pnn, ref_channel=rc, return_ref_channel=True)
            ww = bf.get_wmwf_vector(Pxx, Pnn, reference_channel=rc, distortion_weight=mu)
        except Exception as e:  # noqa
            return viol(f'souden/wmwf raised {e!r}')
        ws, ww = np.asarray(ws), np.asarray(ww)
        if ws.shape != (F, D) or ww.shape != (F, D):
            return viol(f'shapes {ws.shape}, {ww.shape}')
        if rc is None:
            # automatic reference maximises the library's own criterion
            mat = np.zeros((F, D, D), complex)
            for f in range(F):
                phi = np.linalg.solve(Pnn[f], Pxx[f])
                mat[f] = phi / max(np.trace(phi).real, np.finfo(float).tiny)
            snr = lib_snr(mat, Pxx, Pnn, np.finfo(float).tiny)
            if snr[chosen] < snr.max() * (1 - 1e-9 * cond):
                return viol(f'automatic reference {chosen} does not maximise the SNR criterion {snr.tolist()}')
            rcc = int(chosen)
            # WMWF's own automatic reference is judged with its own filter
            filt = np.zeros((F, D, D), complex)
            for f in range(F):
                phi = np.linalg.solve(Pnn[f], Pxx[f])
                filt[f] = phi / (mu + np.trace(phi))
            snr_w = lib_snr(filt, Pxx, Pnn, np.finfo(float).tiny)
            cands = [r for r in range(D) if snr_w[r] >= snr_w.max() * (1 - 1e-9 * cond)]
            hit = None
            for r in cands:
                if np.abs(ww - filt[..., r]).max() <= rt * np.abs(ww).max() + 1e-300:     # relative: tiny targets
                    hit = r
            if hit is None:
                return viol('WMWF automatic reference is not a maximiser of the SNR criterion')
            rcw = hit
        else:
            rcc = rcw = rc
            if chosen != rc:
                return viol(f'returned reference {chosen} != requested {rc}')
        for f in range(F):
            x = np.linalg.solve(Pnn[f], a[f])
            wm = x / (a[f].conj() @ x)
            want = wm * np.conj(a[f][rcc])
            bad = tol.mismatch(ws[f], want, rt, what='Souden MVDR vs MVDR*conj(a_ref)')
            if bad:
                return viol(bad)
            if abs(np.vdot(ws[f], a[f]) - a[f][rcc]) > rt * (1 + abs(a[f][rcc])):
                return viol('Souden: w^H a != a_ref')
            e = np.zeros(D)
            e[rcw] = 1
            # exact minimiser of E|h^H x - X_ref|^2 + mu E|h^H n|^2: (Pxx + mu Pnn) w = Pxx e_ref.
            # judged by the residual of the normal equations (no inversion of the huge-condition sum)
            sg = sigma * (1 + f)
            res = (Pxx[f] + mu * Pnn[f]) @ ww[f] - Pxx[f] @ e
            scale = np.linalg.norm(Pxx[f], 2) * np.linalg.norm(ww[f]) + np.linalg.norm(Pxx[f] @ e) + 1e-300
            if np.linalg.norm(res) > (rt * 100 + 1e-9) * scale:
                return viol(f'WMWF(mu={mu}) is not the minimiser: normal-equation residual '
                            f'{np.linalg.norm(res):.3e} (scale {scale:.3e})')
            wantw = x * np.conj(a[f][rcw]) * sg / (mu + sg * np.real(a[f].conj() @ x))
            bad = tol.mismatch(ww[f], wantw, rt * 10, what=f'WMWF(mu={mu}) vs rank-one closed form')
            if bad:
                return viol(bad)
        # the reference given as a channel selection vector: a unit vector reproduces reference_channel, a general
        # vector gives the corresponding combination of the per-channel filters (shape (F, D), one row per bin)
        if rc is not None:
            e_sel = np.zeros((F, D))
            e_sel[:, rc] = 1.0
            try:
                w_sel = np.asarray(bf.get_wmwf_vector(Pxx, Pnn, channel_selection_vector=e_sel, distortion_weight=mu))
                if rc == 0:
                    per = [np.asarray(bf.get_wmwf_vector(Pxx, Pnn, reference_channel=r_, distortion_weight=mu))
                           for r_ in range(D)]
                    u = (np.arange(1, D + 1)[None, :] * (1.0 + np.arange(F))[:, None]).astype(float)
                    w_mix = np.asarray(bf.get_wmwf_vector(Pxx, Pnn, channel_selection_vector=u, distortion_weight=mu))
            except Exception as e:  # noqa
                return viol(f'get_wmwf_vector(channel_selection_vector=...) raised {e!r}')
            bad = tol.mismatch(w_sel, ww, rt, what='WMWF with a unit channel_selection_vector vs reference_channel')
            if not bad and rc == 0:
                want_mix = sum(u[:, r_, None] * per[r_] for r_ in range(D))
                bad = tol.mismatch(w_mix, want_mix, rt * 10, what='WMWF with a general channel_selection_vector')
            if bad:
                return viol(bad)
        # a stack of problems along an extra leading (source) axis: every slice is the single-problem result
        if rc is not None:
            PxxS = np.ascontiguousarray(np.stack([Pxx, 2.0 * Pxx, Pxx[::-1]]))
            PnnS = np.ascontiguousarray(np.stack([Pnn, Pnn, Pnn[::-1]]))
            try:
                wsS = np.asarray(bf.get_mvdr_vector_souden(PxxS, PnnS, ref_channel=rc))
                wwS = np.asarray(bf.get_wmwf_vector(PxxS, PnnS, reference_channel=rc, distortion_weight=mu))
            except Exception as e:  # noqa
                return viol(f'souden/wmwf raised {e!r} for a (3, F, D, D) stack')
            if wsS.shape != (3, F, D) or wwS.shape != (3, F, D):
                return viol(f'stacked shapes {wsS.shape}, {wwS.shape} != {(3, F, D)}')
            ww2 = np.asarray(bf.get_wmwf_vector(2.0 * Pxx, Pnn, reference_channel=rc, distortion_weight=mu))
            for got_, want_, nm in ((wsS[0], ws, 'Souden'), (wsS[1], ws, 'Souden (target x 2)'),
                                    (wsS[2], ws[::-1], 'Souden (bins reversed)'), (wwS[0], ww, 'WMWF'),
                                    (wwS[1], ww2, 'WMWF (target x 2)'), (wwS[2], ww[::-1], 'WMWF (bins reversed)')):
                bad = tol.mismatch(got_, want_, rt * 10, what=f'{nm}: slice of a (3, F, D, D) stack vs the problem alone')
                if bad:
                    return viol(bad)
        # scale invariances (explicit reference only)
        if rc is not None:
            for c1, c2 in ((7.0, 1.0), (1.0, 1e3), (1e-3, 7.0)):
                w2 = np.asarray(bf.get_mvdr_vector_souden(Pxx * c1, Pnn * c2, ref_channel=rc))
                bad = tol.mismatch(w2, ws, rt * 10, what=f'Souden under PSD scaling ({c1},{c2})')
                if bad:
                    return viol(bad)
            for c in (1e-3, 7.0, 1e3):
                w2 = np.asarray(bf.get_wmwf_vector(Pxx * c, Pnn * c, reference_channel=rc, distortion_weight=mu))
                bad = tol.mismatch(w2, ww, rt * 10, what=f'WMWF under joint PSD scaling {c}')
                if bad:
                    return viol(bad)
        outs.append(tol.digest(ws))
    return ok(outcome=str(outs), evals=len(refs) * 2)


def subchecks(tier, seed):
    seeds_ = [seed] if tier != 'thorough' else [seed] + [seed * 1000 + v for v in range(1, 5)]
    thorough = tier == 'thorough'
    Ds = (2, 3, 5, 8)
    Fs = (1, 2, 32) if thorough else (1, 2, 5)
    steers = ('basis', 'generic', 'generic1e3')
    noises = ('identity', 'diag1e6', '1.0', '1000.0', '1000000.0', 'identity_real', 'sinc_real')
    subs = []

    def mvdr_cases():
        for seed in seeds_:
            for D in Ds:
                for F in Fs:
                    for K in (1, 2, 3):
                        for sk in steers:
                            for nk in noises:
                                for stack in ('single', 'bins', 'stack'):
                                    if stack == 'single' and (F > 1 or K > 1):
                                        continue
                                    if stack == 'bins' and K > 1:
                                        continue
                                    yield (D, F, K, sk, nk, stack, 1.0, 1.0, 'C', seed)
                                    if sk == 'generic' and D == 3 and nk in ('1000.0', 'sinc_real') and stack != 'single':
                                        for lay in A.LAYOUTS[1:]:
                                            yield (D, F, K, sk, nk, stack, 1.0, 1.0, lay, seed)
                                    if sk == 'generic' and D in (2, 5):
                                        for a_s, p_s in ((1e-6, 1.0), (1.0, 1e12), (1e6, 1e-12), (1e-8, 1e8), (1e100, 1.0),
                                                         (1.0, 1e-100)):
                                            yield (D, F, K, sk, nk, stack, a_s, p_s, 'C', seed)
    subs.append(Sub('mvdr', ('D', 'F', 'K', 'steer', 'noise', 'stack', 'a_scale', 'p_scale', 'layout', 'seed'),
                    mvdr_cases, run_mvdr))

    def lcmv_cases():
        for seed in seeds_:
            for D in Ds:
                for F in Fs:
                    for K in (1, 2, 3):
                        for sk in ('generic', 'generic1e3'):
                            for nk in noises:
                                for resp in ((1, 0, 0), (0, 1, 0.5), (-1, 0.25, 1), (0.5, 0.5, 0.5)):
                                    yield (D, F, K, sk, nk, resp, 'C', seed)
                                    if D == 3 and nk in ('1000.0', 'sinc_real') and resp[0] == -1:
                                        for lay in A.LAYOUTS[1:]:
                                            yield (D, F, K, sk, nk, resp, lay, seed)
    subs.append(Sub('lcmv', ('D', 'F', 'K', 'steer', 'noise', 'resp', 'layout', 'seed'), lcmv_cases, run_lcmv))

    def sw_cases():
        for seed in seeds_:
            for D in Ds:
                for F in Fs + (17, 24, 31):
                    for sk in steers:
                        for nk in noises:
                            for sigma in (1e-3, 1.0, 1e3, 1e-9, 1e-12):
                                for ref in ('each', 'auto'):
                                    if sigma < 1e-6 and (ref != 'auto' or sk != 'generic' or D not in (2, 5)):
                                        continue      # target far below the noise: automatic reference
                                    for mu in (0.0, 0.5, 1.0, 100.0):
                                        if F in (17, 24, 31) and F not in Fs and (
                                                ref != 'auto' or sk != 'generic' or sigma != 1.0 or D not in (2, 5)
                                                or mu not in (0.0, 1.0)):
                                            continue      # bin counts between 16 and 32: automatic reference only
                                        yield (D, F, sk, nk, sigma, ref, mu, 'C', seed)
                                        if D == 3 and sk == 'generic' and nk in ('1000.0', 'sinc_real') and sigma == 1.0:
                                            for lay in A.LAYOUTS[1:]:
                                                yield (D, F, sk, nk, sigma, ref, mu, lay, seed)
    subs.append(Sub('souden_wmwf', ('D', 'F', 'steer', 'noise', 'sigma', 'ref', 'mu', 'layout', 'seed'), sw_cases,
                    run_souden_wmwf))
    return subs
