"""C12 — GEV and PCA beamformers maximise their Rayleigh quotients; BAN only rescales.

Full product D x leading shape x target kind x noise kind x use_eig x PCA scaling with
a complete probe set per case (canonical basis, all other generalised eigenvectors,
every vector the wrapper can produce for the same PSDs, generic vectors)."""
import numpy as np

from mc.core import Sub, ok, viol
from mc import alphabet as A
from mc import tol

LEVEL = 'exploration'
RULE = ('full product of D{2,3,5,8} x leading {(),(3,),(2,3)} x target {rank-1, rank-2, full} x noise '
        '{identity, cond 1e3, 1e6} x use_eig x PCA scaling; probe set: basis, eigenvectors, all wrapper '
        'beamformers, generic vectors')
ASSUMPTIONS = ['lambda_max computed independently by Cholesky whitening + eigvalsh']

WRAPPER_NAMES = ('pca', 'pca+mvdr', 'scaled_gev_atf+mvdr', 'mvdr_souden', 'rank1_pca+mvdr_souden',
                 'rank1_gev+mvdr_souden', 'gev', 'rank1_pca+gev', 'rank1_gev+gev', 'wmwf',
                 'rank1_pca+wmwf', 'rank1_gev+wmwf', 'ch0')


def _bf():
    from pb_bss.extraction import beamformer
    return beamformer


def _bw():
    from pb_bss.extraction import beamformer_wrapper
    return beamformer_wrapper


def make_psds(seed, lead, D, tk, nk):
    lead = tuple(lead)
    Pxx = np.zeros(lead + (D, D), complex)
    Pnn = np.zeros(lead + (D, D), complex)
    steer = np.zeros(lead + (D,), complex)
    cond = {'identity': 1.0, 'cond1e3': 1e3, 'cond1e6': 1e6, 'diag': 8.0}[nk]
    for idx in np.ndindex(*lead):
        r = A.rng(seed, 'c12', idx, D, tk)
        a = A.cnormal(r, (D,)) * np.sqrt(2)
        steer[idx] = a
        if tk == 'rank1':
            Pxx[idx] = (1 + sum(idx)) * np.outer(a, a.conj())
        elif tk == 'rank2':
            b = A.cnormal(r, (D,))
            Pxx[idx] = np.outer(a, a.conj()) + 0.3 * np.outer(b, b.conj())
        elif tk == 'loud':
            # target 50 ... 60 dB above the noise (the quotients are scale free)
            Pxx[idx] = (A.hpd(seed, D, 50.0, 'c12x', idx) * 3 + np.outer(a, a.conj())) * 1e5 * (1 + 9 * (sum(idx) % 2))
        elif tk == 'dominant':
            # a strongly dominant source that is NOT exactly rank one (diffuse part 50 dB below)
            Pxx[idx] = np.outer(a, a.conj()) + 1e-5 * A.hpd(seed, D, 20.0, 'c12xd', idx)
        elif tk == 'real_full':
            # real symmetric target PSD, handed over with a real dtype (see below)
            ar = r.standard_normal(D) * np.sqrt(2)
            steer[idx] = ar
            Pxx[idx] = A.hpd(seed, D, 50.0, 'c12xr', idx, complex_=False) * 3 + np.outer(ar, ar)
        elif tk in ('diag_up', 'diag_down'):
            # exactly diagonal: off-diagonal entries are exact zeros, largest entry last / first
            dd = (1.0 + np.arange(D)) * (1 + sum(idx))
            Pxx[idx] = np.diag(dd if tk == 'diag_up' else dd[::-1])
            steer[idx] = np.eye(D)[D - 1 if tk == 'diag_up' else 0]
        elif tk == 'axis_rank1':
            # rank one along one sensor axis that is not the first
            a = np.zeros(D, complex)
            a[(1 + sum(idx)) % D if D > 1 else 0] = 1.5 - 0.5j
            steer[idx] = a
            Pxx[idx] = np.outer(a, a.conj())
        else:
            Pxx[idx] = A.hpd(seed, D, 50.0, 'c12x', idx) * 3 + np.outer(a, a.conj())
        if nk == 'diag':
            # exactly diagonal noise with unequal sensor powers
            Pnn[idx] = np.diag(np.linspace(1.0, 8.0, D)[::-1 if sum(idx) % 2 else 1]) * (1 + 0.5 * sum(idx))
            continue
        Pnn[idx] = np.eye(D) * (1 + 0.5 * sum(idx)) if nk == 'identity' else \
            A.hpd(seed, D, cond, 'c12n', idx) * (1 + 0.5 * sum(idx))
    if tk == 'real_full':
        Pxx = np.ascontiguousarray(Pxx.real)
    return Pxx, Pnn, steer, cond


def quotient(w, Pxx, Pnn):
    return float(np.real(w.conj() @ Pxx @ w) / np.real(w.conj() @ Pnn @ w))


def gev_lambda_max(Pxx, Pnn):
    L = np.linalg.cholesky(Pnn)
    Li = np.linalg.inv(L)
    Mw = Li @ Pxx @ Li.conj().T
    w, V = np.linalg.eigh((Mw + Mw.conj().T) / 2)
    vecs = Li.conj().T @ V
    return float(w[-1]), vecs, w


def run_gev(key):
    bf, bw = _bf(), _bw()
    D, lead, tk, nk, use_eig, seed = (key[k] for k in ('D', 'lead', 'target', 'noise', 'use_eig', 'seed'))
    lead = tuple(lead)
    Pxx, Pnn, steer, cond = make_psds(seed, lead, D, tk, nk)
    layout = key['layout']
    if layout == 'fortran':
        # column-major trailing (D, D) blocks, writeable: an in-place LAPACK call would clobber them
        Pxx = np.ascontiguousarray(Pxx.swapaxes(-1, -2)).swapaxes(-1, -2)
        Pnn = np.ascontiguousarray(Pnn.swapaxes(-1, -2)).swapaxes(-1, -2)
    elif layout == 'lead_transposed' and len(lead) >= 2:
        # leading axes swapped in memory (e.g. the (K, F, D, D) view of an (F, K, D, D) result)
        Pxx = np.swapaxes(np.ascontiguousarray(np.swapaxes(Pxx, 0, 1)), 0, 1)
        Pnn = np.swapaxes(np.ascontiguousarray(np.swapaxes(Pnn, 0, 1)), 0, 1)
        Pxx.setflags(write=False)
        Pnn.setflags(write=False)
    else:
        Pxx.setflags(write=False)
        Pnn.setflags(write=False)
    snap_x, snap_n = Pxx.copy(), Pnn.copy()
    try:
        w = np.asarray(bf.get_gev_vector(Pxx, Pnn, use_eig=use_eig))
    except Exception as e:  # noqa
        return viol(f'get_gev_vector raised {e!r}')
    if w.shape != lead + (D,):
        return viol(f'shape {w.shape} != {lead + (D,)}')
    if not np.isfinite(w).all():
        return viol('non-finite GEV vector')
    if not (np.array_equal(Pxx, snap_x) and np.array_equal(Pnn, snap_n)):
        return viol(f'get_gev_vector modified its PSD arguments ({layout} layout)')
    rt = 1e-11 * cond + 1e-9
    # all wrapper beamformers for the same PSDs (3-D stacks required by automatic reference: use ref 0)
    probes_by_name = {}
    if len(lead) <= 1:
        P3x, P3n = (Pxx, Pnn) if lead else (Pxx[None], Pnn[None])
        for name in WRAPPER_NAMES:
            kw = {}
            if 'souden' in name:
                kw['ref_channel'] = 0
            if 'wmwf' in name:
                kw['reference_channel'] = 0
            try:
                v = np.asarray(bw.get_bf_vector(name, P3x, P3n, **kw))
                for suffix in ('', '+ban'):
                    if suffix:
                        v2 = np.asarray(bw.get_bf_vector(name + suffix, P3x, P3n, **kw))
                    else:
                        v2 = v
                    probes_by_name[name + suffix] = v2 if lead else v2[0]
            except Exception as e:  # noqa
                return viol(f'get_bf_vector({name!r}) raised {e!r}')
    # the wrapper's 'gev' / 'gev+ban' with the same use_eig option are the primitives composed
    try:
        wg = np.asarray(bw.get_bf_vector('gev', Pxx, Pnn, use_eig=use_eig))
        wgb = np.asarray(bw.get_bf_vector('gev+ban', Pxx, Pnn, use_eig=use_eig))
        comp = np.asarray(bf.blind_analytic_normalization(w, Pnn))
    except Exception as e:  # noqa
        return viol(f"get_bf_vector('gev(+ban)', use_eig={use_eig}) raised {e!r}")
    bad = tol.mismatch(wg, w, 1e-12, what=f"get_bf_vector('gev', use_eig={use_eig}) vs get_gev_vector") or \
        tol.mismatch(wgb, comp, 1e-9, what=f"get_bf_vector('gev+ban', use_eig={use_eig}) vs BAN(get_gev_vector)")
    if bad:
        return viol(bad)
    n = 0
    for idx in np.ndindex(*lead):
        lam, vecs, allw = gev_lambda_max(Pxx[idx], Pnn[idx])
        q = quotient(w[idx], Pxx[idx], Pnn[idx])
        if abs(q - lam) > rt * (1 + abs(lam)):
            return viol(f'GEV output SNR {q!r} != largest generalised eigenvalue {lam!r} (use_eig={use_eig})')
        probes = [np.eye(D)[j].astype(complex) for j in range(D)]
        probes += [vecs[:, j] for j in range(D)]
        r = A.rng(seed, 'c12probe', idx, D)
        probes += [A.cnormal(r, (D,)) for _ in range(4)]
        for name, v in probes_by_name.items():
            pv = np.asarray(v)[idx] if lead else np.asarray(v)
            if np.isfinite(pv).all() and np.linalg.norm(pv) > 0:
                probes.append(pv.astype(complex))
        for pv in probes:
            qp = quotient(pv, Pxx[idx], Pnn[idx])
            if qp > q * (1 + rt) + rt:
                return viol(f'a probe vector has a larger output SNR than the GEV vector: {qp!r} > {q!r}')
        # rank-one estimates
        for kind in ('gev', 'pca'):
            try:
                if kind == 'gev':
                    R1 = np.asarray(bw.get_gev_rank_one_estimate(Pxx[idx][None], Pnn[idx][None],
                                                                 use_eig=use_eig))[0]
                else:
                    R1 = np.asarray(bw.get_pca_rank_one_estimate(Pxx[idx][None]))[0]
                    for sc in ('trace', 'eigenvalue'):
                        R1s = np.asarray(bw.get_pca_rank_one_estimate(Pxx[idx][None], scaling=sc))[0]
                        bad = tol.mismatch(R1s, R1, 1e-9, what=f'PCA rank-one estimate with scaling={sc!r} '
                                                                f'vs default (trace must be preserved)')
                        if bad:
                            return viol(bad)
            except Exception as e:  # noqa
                return viol(f'rank-one estimate ({kind}) raised {e!r}')
            if np.abs(R1 - R1.conj().T).max() > 1e-9 * (1 + np.abs(R1).max()):
                return viol(f'rank-one estimate ({kind}) not Hermitian')
            sv = np.linalg.svd(R1, compute_uv=False)
            if sv[1] > 1e-10 * sv[0]:
                return viol(f'rank-one estimate ({kind}) has rank > 1: sigma2/sigma1 = {sv[1] / sv[0]:.2e}')
            if abs(np.trace(R1) - np.trace(Pxx[idx])) > 1e-9 * abs(np.trace(Pxx[idx])) * (1 + cond * 1e-3):
                return viol(f'rank-one estimate ({kind}) does not preserve the trace')
            if tk == 'rank1':
                a = steer[idx] / np.linalg.norm(steer[idx])
                want = np.outer(a, a.conj()) * np.trace(Pxx[idx]).real
                bad = tol.mismatch(R1, want, rt * 100, what=f'rank-one estimate ({kind}) of an exactly rank-one target')
                if bad:
                    return viol(bad)
        n += 1
    if not (np.array_equal(Pxx, snap_x) and np.array_equal(Pnn, snap_n)):
        return viol(f'a beamforming helper modified the PSD arguments ({layout} layout)')
    # BAN
    try:
        wb = np.asarray(bf.blind_analytic_normalization(w, Pnn))
    except Exception as e:  # noqa
        return viol(f'blind_analytic_normalization raised {e!r}')
    for idx in np.ndindex(*lead):
        v, P = w[idx], Pnn[idx]
        fac = np.sqrt(np.real(v.conj() @ P @ P @ v)) / np.real(v.conj() @ P @ v)
        if not fac > 0:
            return viol('BAN factor not positive')
        bad = tol.mismatch(wb[idx], v * fac, rt * 10, what='BAN vs w*sqrt(w^H Pnn Pnn w)/(w^H Pnn w)')
        if bad:
            return viol(bad)
        if abs(quotient(wb[idx], Pxx[idx], P) - quotient(v, Pxx[idx], P)) > rt * 10 * (1 + abs(quotient(v, Pxx[idx], P))):
            return viol('BAN changed the output SNR')
    for c in (1e-6, 1e6, 3 + 4j):
        wc = np.asarray(bf.blind_analytic_normalization(w * c, Pnn))
        bad = tol.mismatch(wc, wb * (c / abs(c)), rt * 10, what=f'BAN(c*w) vs BAN(w)*c/|c| (c={c})')
        if bad:
            return viol(bad)
    return ok(outcome=tol.digest(np.abs(w)), evals=n)


def run_pca(key):
    bf = _bf()
    D, lead, tk, scaling, seed = (key[k] for k in ('D', 'lead', 'target', 'scaling', 'seed'))
    lead = tuple(lead)
    Pxx, _, steer, _ = make_psds(seed, lead, D, tk, 'identity')
    Pxx.setflags(write=False)
    try:
        w = np.asarray(bf.get_pca_vector(Pxx, scaling=scaling))
    except Exception as e:  # noqa
        return viol(f'get_pca_vector raised {e!r}')
    if w.shape != lead + (D,):
        return viol(f'shape {w.shape}')
    for idx in np.ndindex(*lead):
        ev, V = np.linalg.eigh(Pxx[idx])
        v = w[idx]
        q = float(np.real(v.conj() @ Pxx[idx] @ v) / np.real(v.conj() @ v))
        if abs(q - ev[-1]) > 1e-9 * (1 + ev[-1]):
            return viol(f'PCA Rayleigh quotient {q!r} != lambda_max {ev[-1]!r}')
        for j in range(D):
            e = np.eye(D)[j]
            if float(np.real(e @ Pxx[idx] @ e)) > q * (1 + 1e-9):
                return viol('a basis vector has a larger Rayleigh quotient')
        nrm = np.linalg.norm(v)
        want = {None: 1.0, 'trace': np.sqrt(np.trace(Pxx[idx]).real), 'eigenvalue': ev[-1]}[scaling]
        if abs(nrm - want) > 1e-9 * (1 + want):
            return viol(f'PCA scaling {scaling!r}: norm {nrm!r} != {want!r}')
        proj = np.outer(v, v.conj()) / nrm ** 2
        if ev[-1] - ev[-2] > 1e-6 * ev[-1] if D > 1 else True:
            bad = tol.mismatch(proj, np.outer(V[:, -1], V[:, -1].conj()), 1e-8,
                               what='PCA direction vs principal eigenvector')
            if bad:
                return viol(bad)
    return ok(outcome=tol.digest(np.abs(w)))


def subchecks(tier, seed):
    seeds_ = [seed] if tier != 'thorough' else [seed] + [seed * 1000 + v for v in range(1, 8)]
    subs = []
    leads = ((), (3,), (2, 3))

    def gev_cases():
        for seed in seeds_:
            for D in (2, 3, 5, 8):
                for lead in leads:
                    for tk in ('rank1', 'rank2', 'full', 'real_full', 'diag_up', 'axis_rank1', 'dominant', 'loud'):
                        for nk in ('identity', 'cond1e3', 'cond1e6', 'diag'):
                            for use_eig in (False, True):
                                for layout in ('c_readonly', 'fortran') + (('lead_transposed',) if len(lead) >= 2 else ()):
                                    yield (D, lead, tk, nk, use_eig, layout, seed)
    subs.append(Sub('gev_ban_rank1', ('D', 'lead', 'target', 'noise', 'use_eig', 'layout', 'seed'),
                    gev_cases, run_gev))

    def pca_cases():
        for seed in seeds_:
            for D in (2, 3, 5, 8):
                for lead in leads:
                    for tk in ('rank1', 'rank2', 'full', 'real_full', 'diag_up', 'diag_down', 'axis_rank1', 'dominant', 'loud'):
                        for scaling in (None, 'trace', 'eigenvalue'):
                            yield (D, lead, tk, scaling, seed)
            # stacks of a few thousand matrices (e.g. sources x 513 bins, or one matrix per frame)
            for lead in ((4, 513), (2051,), (4100,)):
                for D, tk in ((2, 'full'), (3, 'rank2')):
                    yield (D, lead, tk, 'eigenvalue' if D == 2 else None, seed)
    subs.append(Sub('pca', ('D', 'lead', 'target', 'scaling', 'seed'), pca_cases, run_pca))
    return subs
