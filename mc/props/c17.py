"""C17 — the documented pipeline separates a separable multi-channel scene.

Full product K x D x (F,T) x model x activity partition x permutation-field family,
every interference-cancelling beamformer name per scene; chain as in
examples/mixture_model_example.ipynb."""
import numpy as np

from mc.core import Sub, ok, viol
from mc import alphabet as A

LEVEL = 'exploration'
RULE = ('full product of K{2,3} x D{K+1,K+2,8} x (F,T){(33,60),(65,100),(257,60)|(257,200)} x {cACGMM,cWMM} x 3 '
        'activity partitions x 3 permutation-field families; 13 beamformer names per scene')
ASSUMPTIONS = ['scenes are vetted: steering vectors of different sources at least 0.25 rad apart in every bin (|cos| <= 0.97)',
               'thresholds of the statement: >= 99 % MAP accuracy, SIR >= 30 dB for every source and beamformer',
               'scene: sources disjoint over frames, generic per-frequency steering vectors, sensor noise -40 dB (-80 and -120 dB for a subset)']

BEAMFORMERS = ('mvdr_souden', 'mvdr_souden+ban', 'gev', 'gev+ban', 'rank1_pca+mvdr_souden',
               'rank1_gev+mvdr_souden', 'rank1_pca+gev', 'rank1_gev+gev+ban', 'wmwf', 'rank1_pca+wmwf',
               'rank1_gev+wmwf', 'pca+mvdr', 'scaled_gev_atf+mvdr')


def partition(seed, K, T, kind):
    r = A.rng(seed, 'c17part', K, T, kind)
    if kind == 'blocks':
        owner = (np.arange(T) * K // T)
    elif kind == 'interleaved':
        owner = np.arange(T) % K
    else:
        w = np.array([0.5, 0.3, 0.2][:K]) if K == 3 else np.array([0.7, 0.3])
        owner = np.repeat(np.arange(K), np.ceil(w * T).astype(int))[:T]
        owner = owner[r.permutation(T)]
    for k in range(K):
        assert (owner == k).mean() >= 0.15
    return owner


_PLANS = {}


def plan_cfg(F):
    """(start, width, shift) of the DHTV stage: the shipped default for F=257; otherwise a custom plan inside the
    domain of C16 (every later segment overlaps the covered band by >= 2/3), chosen on the REFERENCE plan so that
    the scene does not depend on the implementation under test."""
    from mc.props import c16
    from mc.refmodels import alignment as RA
    if F == 257:
        return (70, 100, 20)
    if F not in _PLANS:
        cands = []
        for start in range(F // 4, F // 2 + 1):
            for width in range(max(3, F // 4), F // 2 + 1):
                if start + width > F:
                    continue
                for shift in range(2, width // 3 + 1):
                    ov, _ = c16.plan_overlaps(RA.plan(F, start, width, shift, 20, 2), F)
                    if all(o >= 2 / 3 - 1e-12 for o in ov):
                        cands.append((start, width, shift))
        if not cands:
            from mc.core import HarnessError
            raise HarnessError(f'no in-domain DHTV plan for F={F}')
        _PLANS[F] = max(cands, key=lambda c: (c[2], -c[1]))
    return _PLANS[F]


def dhtv_for(F):
    import pb_bss.permutation_alignment as pa
    if F == 257:
        return pa.DHTVPermutationAlignment.from_stft_size(512)
    cfg = plan_cfg(F)
    return pa.DHTVPermutationAlignment(stft_size=2 * (F - 1), segment_start=cfg[0], segment_width=cfg[1],
                                       segment_shift=cfg[2], main_iterations=20, sub_iterations=2)


def perm_field(seed, K, F, family, plan):
    import itertools
    perms = list(itertools.permutations(range(K)))
    r = A.rng(seed, 'c17field', K, F, family)
    lo, hi = plan[0][1], plan[0][2]
    fld = np.zeros(F, int)
    if family == 'identity':
        return [perms[0]] * F
    w = hi - lo
    nmin = int(np.floor(0.3 * w + 1e-9))
    # majority order of the first segment: a cyclic shift (adversarial) or a seeded order (random), so that
    # the global permutation left after DHTV is not the identity (3-cycles for K=3)
    maj = perms.index(tuple(np.roll(np.arange(K), 1))) if family == 'adversarial' else int(r.integers(0, len(perms)))
    inside = np.full(w, maj)
    others = [p for p in range(len(perms)) if p != maj]
    inside[r.permutation(w)[:nmin]] = r.choice(others, size=nmin)
    fld[lo:hi] = inside
    if family == 'adversarial':
        fld[:lo] = 1 + (np.arange(lo) % (len(perms) - 1))
        fld[hi:] = len(perms) - 1
    else:
        fld[:lo] = r.integers(0, len(perms), size=lo)
        fld[hi:] = r.integers(0, len(perms), size=F - hi)
    return [perms[i] for i in fld]


def run_scene(key):
    import pb_bss.distribution as d
    import pb_bss.permutation_alignment as pa
    from pb_bss.extraction import beamformer as bf
    from pb_bss.extraction import beamformer_wrapper as bw
    from pb_bss.evaluation import sxr_module as sx
    K, D, F, T, model, pk, family, seed = (key[k] for k in ('K', 'D', 'F', 'T', 'model', 'part', 'field', 'seed'))
    r = A.rng(seed, 'c17', K, D, F, T, pk)
    owner = partition(seed, K, T, pk)
    steer = A.cnormal(r, (F, K, D))
    steer /= np.linalg.norm(steer, axis=-1, keepdims=True) / np.sqrt(D)
    if key.get('variant') != 'close_steering':
        # vetted scene: in every bin the steering vectors of two sources are at least 0.25 rad apart (|cos| <= 0.97);
        # closer pairs are beyond the angular resolution of the Watson model with its default max_concentration = 500
        # (see the known finding of the un-vetted scene 'close_steering'); offending bins are redrawn
        r2 = A.rng(seed, 'c17vet', K, D, F, T, pk)
        for _ in range(100):
            u = steer / np.linalg.norm(steer, axis=-1, keepdims=True)
            g = np.abs(np.einsum('fkd,fjd->fkj', u.conj(), u)) - np.eye(K)
            bad_bins = np.where(g.max(axis=(1, 2)) > 0.97)[0]
            if not len(bad_bins):
                break
            new = A.cnormal(r2, (len(bad_bins), K, D))
            steer[bad_bins] = new / (np.linalg.norm(new, axis=-1, keepdims=True) / np.sqrt(D))
    s = A.cnormal(r, (F, T))
    images = np.zeros((K, F, T, D), complex)
    for k in range(K):
        sel = owner == k
        images[k][:, sel, :] = steer[:, k, None, :] * s[:, sel, None]
    noise = A.cnormal(r, (F, T, D)) * 10 ** (key.get('noise_db', -40) / 20)
    variant = key.get('variant', 'plain')
    if variant == 'fit_predict_small':
        # the whole scene 40 dB lower (nothing in the chain depends on the absolute level)
        images, noise = images * 1e-2, noise * 1e-2
    X = images.sum(0) + noise                                   # (F, T, D)
    # per-frequency permuted, blurred partition as start
    part = np.full((K, T), 0.4 / (K - 1))
    part[owner, np.arange(T)] = 0.6
    aligner = dhtv_for(F)
    from mc.refmodels import alignment as RA
    ref_plan = RA.plan(F, *plan_cfg(F), 20, 2)
    try:
        impl_plan = [list(p_) for p_ in aligner.alignment_plan]
    except Exception as e:  # noqa
        return viol(f'DHTV alignment_plan raised {e!r}')
    if impl_plan != ref_plan:
        return viol(f'the DHTV stage does not use the documented segment plan: {impl_plan} instead of {ref_plan}')
    field = perm_field(seed, K, F, family, ref_plan)
    init = np.stack([part[list(field[f])] for f in range(F)])     # (F, K, T)
    trainer = d.CACGMMTrainer() if model == 'cacgmm' else d.CWMMTrainer()
    try:
        if variant == 'fit_predict_small':
            aff = trainer.fit_predict(X, initialization=init, iterations=10)   # the other documented entry point
        else:
            m = trainer.fit(X, initialization=init, iterations=10)
            aff = m.predict(X)                                   # (F, K, T)
        aff_kft = np.transpose(aff, (1, 0, 2))
        if variant == 'contiguous':
            aff_kft = np.ascontiguousarray(aff_kft)       # a fresh C-contiguous float64 array instead of a view
        mapping = aligner.calculate_mapping(aff_kft)
        aff_pa = aligner.apply_mapping(aff_kft, mapping)        # (K, F, T)
        # global (oracle) permutation as in the example notebook
        est = (aff_pa[:, :, :, None] * X[None]).reshape(K, -1)
        ref = images.reshape(K, -1)
        gp = pa.OraclePermutationAlignment().calculate_mapping(est, ref)
        aff_pa = aff_pa[gp]
    except Exception as e:  # noqa
        return viol(f'pipeline raised {e!r}')
    truth = np.broadcast_to(owner, (F, T))
    acc = float((aff_pa.argmax(0) == truth).mean())
    if acc < 0.99:
        per_f = (aff_pa.argmax(0) == truth).mean(1)
        return viol(f'{model}: aligned maximum-posterior class equals the true source in only {acc:.4f} of the '
                    f'time-frequency points (worst bins {np.argsort(per_f)[:5].tolist()})', acc, 0.99)
    # mask-based PSDs and beamforming
    Xfdt = np.transpose(X, (0, 2, 1))                           # (F, D, T)
    masks = np.transpose(aff_pa, (1, 0, 2))                     # (F, K, T)
    try:
        psd = bf.get_power_spectral_density_matrix(Xfdt, masks)  # (F, K, D, D)
    except Exception as e:  # noqa
        return viol(f'PSD estimation raised {e!r}')
    img_fdt = np.transpose(images, (0, 1, 3, 2))                # (K, F, D, T)
    noise_fdt = np.transpose(noise, (0, 2, 1))
    worst = {}
    for name in BEAMFORMERS:
        W = []
        for k in range(K):
            target = psd[:, k]
            interf = psd[:, [j for j in range(K) if j != k]].sum(1)
            kw = {}
            if variant == 'eig' and 'gev' in name:
                # the general (non-Hermitian) eigen-solver option of the GEV-based beamformers
                if name.startswith(('rank1_gev', 'scaled_gev_atf')):
                    kw['atf_kwargs'] = dict(use_eig=True)
                if name.split('+')[0] == 'gev' or '+gev' in name:
                    kw['use_eig'] = True
            if variant == 'options':
                # the documented ways of naming the output channel: a one-hot / soft channel selection vector for the
                # Wiener filter, an explicit reference channel for the Souden MVDR
                if name.endswith('wmwf'):
                    sel = np.full(D, 0.1 / (D - 1))
                    sel[k % D] = 0.9
                    kw['channel_selection_vector'] = sel if k % 2 else np.eye(D)[k % D]
                elif 'mvdr_souden' in name:
                    kw['ref_channel'] = (k + 1) % D
            try:
                W.append(np.asarray(bw.get_bf_vector(name, target, interf, **kw)))
            except Exception as e:  # noqa
                return viol(f'get_bf_vector({name!r}) raised {e!r}')
        contrib = np.zeros((K, K, F * T), complex)
        ncon = np.zeros((K, F * T), complex)
        for kt in range(K):
            for ks in range(K):
                contrib[ks, kt] = bf.apply_beamforming_vector(W[kt], img_fdt[ks]).reshape(-1)
            ncon[kt] = bf.apply_beamforming_vector(W[kt], noise_fdt).reshape(-1)
        with np.errstate(all='ignore'):
            res = sx.output_sxr(contrib, ncon, average_sources=False)
        sir = np.asarray(res.sir, float)
        if not np.all(sir >= 30.0):
            return viol(f'{model} + {name}: output SIR {np.round(sir, 2).tolist()} dB (< 30 dB) '
                        f'for K={K}, D={D}, F={F}, T={T}', sir.tolist(), 30.0)
        worst[name] = float(sir.min())
    return ok(outcome=f'{acc:.4f}:{round(min(worst.values()), 1)}', evals=len(BEAMFORMERS) + 1,
              detail=dict(accuracy=acc, min_sir_db=min(worst.values()),
                          weakest=min(worst, key=worst.get)))


def subchecks(tier, seed):
    thorough = tier == 'thorough'

    def cases():
        # the un-vetted scene of seed 11 (bin 64: steering vectors with |cos| = 0.9945), independent of VERIF_SEED
        yield (2, 3, 65, 100, 'cwmm', 'random', 'identity', -40, 'close_steering', 11)
        sizes = ((33, 60), (65, 100), (257, 60)) + (((257, 200),) if thorough else ())
        for K in (2, 3):
            for D in (K + 1, K + 2, 8):
                for (F, T) in sizes:
                    for model in ('cacgmm', 'cwmm'):
                        for pk in ('blocks', 'interleaved', 'random'):
                            for family in ('identity', 'adversarial', 'random'):
                                if not thorough and F == 257 and (pk == 'blocks' or family == 'identity'
                                                                 or (D == K + 2 and model == 'cwmm')):
                                    continue
                                yield (K, D, F, T, model, pk, family, -40, 'plain', seed)
                                if F == 33 and family == 'random' and (thorough or pk == 'random'):
                                    yield (K, D, F, T, model, pk, family, -40, 'eig', seed)
                                    yield (K, D, F, T, model, pk, family, -40, 'contiguous', seed)
                                    yield (K, D, F, T, model, pk, family, -40, 'options', seed)
                                    yield (K, D, F, T, model, pk, family, -40, 'fit_predict_small', seed)
                                if F == 33 and family == 'random' and (thorough or pk == 'random'):
                                    # much quieter sensor noise ("at least 40 dB below the sources")
                                    for db in (-80, -120):
                                        yield (K, D, F, T, model, pk, family, db, 'plain', seed)
    return [Sub('scenes', ('K', 'D', 'F', 'T', 'model', 'part', 'field', 'noise_db', 'variant', 'seed'), cases, run_scene,
                bound=dict(beamformers=list(BEAMFORMERS)), exhaustive=thorough, min_nontrivial=50)]
