"""C05 — mixture training is equivariant under relabelling of the classes.

Metamorphic exploration: all K! permutations of the class axis of the start (and of
the source-activity mask) x every configuration with <= d non-default options x
iteration counts; fitted fields and posteriors must be permuted along their own
class axis."""
import itertools

import numpy as np

from mc.core import Sub, ok, trivial, viol
from mc import alphabet as A
from mc import tol
from mc.props import c01
from mc.refmodels import mixtures as M

LEVEL = 'exploration'
RULE = ('all K! relabellings (K<=3 quick, K=4 thorough; K=5: 5-cycles and transpositions) x every '
        'configuration with <= d non-default options (tying, saliency, mask, eps, norm, covariance type, '
        'stream weights, aligner, leading axes, dtype) x iterations {1,2,5,20}')
ASSUMPTIONS = ['generic tie-free data (vetted atoms); fields located by the reference shape rules']


def class_axis(name, arr, model, m):
    if name == 'gauss_cov':
        t = type(m.gaussian).__name__
        return {'Gaussian': -3, 'DiagonalGaussian': -2, 'SphericalGaussian': -1}[t]
    return M.CLASS_AXIS[name]


def perms_for(K, thorough):
    allp = list(itertools.permutations(range(K)))
    if K <= 3 or (K == 4 and thorough):
        return allp[1:]
    if K == 4:
        return [(1, 0, 2, 3), (1, 2, 3, 0), (3, 2, 1, 0), (0, 2, 3, 1)]
    out = [tuple(np.roll(np.arange(K), s)) for s in range(1, K)]
    for i in range(K - 1):
        t = list(range(K))
        t[i], t[i + 1] = t[i + 1], t[i]
        out.append(tuple(t))
    return out


def run(key):
    p = dict(key)
    seed = p.pop('seed')
    thorough = p.pop('thorough')
    p['lead'] = tuple(p['lead'])
    p['streamw'] = tuple(p['streamw'])
    if isinstance(p['wca'], list):
        p['wca'] = tuple(p['wca'])
    c = c01.build(p, seed)
    model, K, N, lead = c['model'], c['K'], c['N'], c['lead']
    if c['empty_class']:
        return trivial('start has a class without mass')
    if N < 2 * K:
        return trivial('fewer than 2K frames: parameters are not identified (ties / collapsed classes)')
    if p['aligner'] == 'builtin' and 0.0 in p['streamw']:
        return trivial('built-in alignment with a zero stream weight: every permutation ties exactly')
    shape = lead + (K, N)
    init = np.broadcast_to(c['init'], shape).copy() if p['start'] != 'soft_singleton' else c['init']
    opts = dict(c['opts'])
    mask = c['mask']
    its = p['iterations']
    try:
        m1 = M.fit(model, c['data'], init, its, **opts)
        post1 = M.predict(model, m1, c['data']) if mask is None else \
            m1.predict(c['data'], source_activity_mask=mask)
    except Exception as e:  # noqa
        # C05 is about equivariance only; whether a fit may raise is judged by C01/C09
        return trivial('fit raises on this configuration: ' + type(e).__name__)
    f1 = M.fields(model, m1)
    w1 = M.weight_full(model, m1, shape)
    # 20 EM iterations amplify rounding (un-normalised covariances reach 1e3): one more decade
    rt = 1e-7 if model == 'cbmm' else (5e-4 if c['single'] else tol.ITER * (10 if its > 5 else 1))
    n = 0
    # one trainer object serves all relabelled fits (a user who compares labellings does exactly that): nothing
    # may be carried over from one fit to the next
    shared = M.trainer(model)
    for perm in perms_for(K, thorough):
        perm = list(perm)
        o2 = dict(opts)
        if mask is not None:
            o2['source_activity_mask'] = np.ascontiguousarray(mask[..., perm, :])
        init_p = np.ascontiguousarray(init[..., perm, :])
        try:
            m2 = M.fit(model, c['data'], init_p, its, tr=shared, **o2)
            post2 = M.predict(model, m2, c['data']) if mask is None else \
                m2.predict(c['data'], source_activity_mask=o2['source_activity_mask'])
        except Exception as e:  # noqa
            if model in ('gmm', 'gcacgmm'):
                cov = np.asarray(m1.gaussian.covariance)
                ev = np.linalg.eigvalsh(cov) if cov.ndim >= 2 and type(m1.gaussian).__name__ == 'Gaussian' \
                    else np.atleast_1d(cov)
                if ev.min() < 1e-8 * ev.max():
                    return trivial('EM collapsed onto a singular Gaussian (fit at the edge of raising)')
            return viol(f'{model}: fit of the relabelled start {perm} raised {e!r} (original start did not)')
        f2 = M.fields(model, m2)
        w2 = M.weight_full(model, m2, shape)
        bad = tol.mismatch(w2, w1[..., perm, :], rt, what=f'{model} weights under relabelling {perm}')
        if bad:
            return viol(bad)
        if model == 'cbmm' and max(np.abs(m_.complex_bingham.covariance_eigenvalues).max() for m_ in (m1, m2)) > 1e6:
            return trivial('Bingham concentration > 1e6: numerically rank-deficient class scatter')
        for name in f1:
            if name == 'weight' or (name == 'cacg_logeig' and c['single']):
                continue
            ax = class_axis(name, f1[name], model, m1)
            want = np.take(f1[name], perm, axis=ax)
            bad = tol.mismatch(f2[name], want, rt * (100 if name in ('watson_mode', 'vmf_mean') else 1),
                               what=f'{model} {name} under relabelling {perm}')
            if bad:
                return viol(bad)
        bad = tol.mismatch(post2, np.asarray(post1)[..., perm, :], rt * 10,
                           what=f'{model} posterior under relabelling {perm}')
        if bad:
            return viol(bad)
        n += 1
    return ok(outcome=tol.digest(np.asarray(post1)), evals=n + 1)


PA_GRID = (0.0, -1.0, -3.0)


def run_builtin_pa(key):
    """the built-in spatial/spectral alignment of the integration models on one frequency: relabelling the
    classes of both streams (and the weights) relabels the posterior - every table over a 3-value grid, every
    relabelling; tables on which two arrangements tie for the maximal criterion are not judged."""
    from pb_bss.distribution.mixture_model_utils import (
        log_pdf_to_affiliation_for_integration_models_with_inline_pa as f_pa)
    K, T, idx, wkind = key['K'], key['T'], key['idx'], key['w']
    n = K * T
    digits = []
    x = idx
    for _ in range(2 * n):
        digits.append(PA_GRID[x % 3])
        x //= 3
    sp = np.array(digits[:n]).reshape(1, K, T)
    se = np.array(digits[n:]).reshape(1, K, T)
    if K >= 5:
        # continuous tables (no ties between the 120 arrangements); idx is the table number
        r_ = A.rng(0, 'c05pa5', K, T, idx)
        sp, se = 3.0 * r_.standard_normal((1, K, T)), 3.0 * r_.standard_normal((1, K, T))
    w = np.full((K, 1), 1.0 / K) if wkind == 'uniform' else \
        (np.arange(1, K + 1, dtype=float) / np.arange(1, K + 1).sum())[:, None]
    # criterion of every arrangement (reference, loops): ties make the choice order dependent
    crit = []
    for p_ in itertools.permutations(range(K)):
        L = sp[0][list(p_)] + se[0]
        g = np.exp(L - L.max(0, keepdims=True))
        g = g / g.sum(0, keepdims=True)
        crit.append(float(np.sum(g * L)))
    top = max(crit)
    if sum(1 for c_ in crit if c_ >= top - 1e-9 * (1 + abs(top))) > 1:
        return trivial('two arrangements tie for the maximal criterion')
    try:
        base = f_pa(weight=w, spatial_log_pdf=sp, spectral_log_pdf=se, affiliation_eps=0.)
    except Exception as e:  # noqa
        return viol(f'built-in alignment raised {e!r}')
    n_ = 0
    relab = list(itertools.permutations(range(K))) if K <= 3 else \
        [tuple(np.roll(np.arange(K), s_)) for s_ in range(1, K)] + \
        [tuple(range(K - 2)) + (K - 1, K - 2), (1, 0) + tuple(range(2, K)), tuple(range(K))[::-1]]
    for perm in relab:
        perm = list(perm)
        try:
            got = f_pa(weight=np.ascontiguousarray(w[perm]), spatial_log_pdf=np.ascontiguousarray(sp[:, perm]),
                       spectral_log_pdf=np.ascontiguousarray(se[:, perm]), affiliation_eps=0.)
        except Exception as e:  # noqa
            return viol(f'built-in alignment raised {e!r} for the relabelled tables')
        bad = tol.mismatch(got, base[:, perm], tol.TIGHT, what=f'built-in alignment under relabelling {perm}')
        if bad:
            return viol(bad)
        n_ += 1
    return ok(outcome=tol.digest(base), evals=n_ + 1)


def subchecks(tier, seed):
    thorough = tier == 'thorough'
    SP = c01.SPACE
    names = SP.names + ['seed', 'thorough']
    d = 2 if thorough else 1

    def cases():
        seen = set()
        base_fixed = dict(data='generic')
        for its in (1, 2, 5, 20):
            for K in ((2, 3, 4, 5) if thorough else (2, 3, 4)):
                for start in ('soft', 'onehot'):
                    for p in SP.deviations(d, fixed=dict(base_fixed, iterations=its, K=K, start=start),
                                           core=('model',)):
                        if p['aligner'] != 'none' and not thorough:
                            continue
                        if p['model'] == 'cbmm' and (its == 20 or K > 3):
                            continue
                        if p['single'] and its > 2:
                            continue   # single precision: rounding is amplified by long EM runs
                        if K >= 4 and its in (2, 20) and not thorough:
                            continue
                        if start == 'onehot' and its != 2 and not thorough:
                            continue
                        t = SP.tup(p) + (seed, thorough)
                        if t not in seen:
                            seen.add(t)
                            yield t
        # nearly tied classes (uniform start with a jitter of 1e-5): nothing may depend on the class index of a
        # neighbouring, almost equal class
        for its in (1, 2, 5):
            for K in (2, 3):
                for p in SP.deviations(1 if thorough else 0,
                                       fixed=dict(base_fixed, iterations=its, K=K, start='near_uniform'),
                                       core=('model',)):
                    if p['aligner'] != 'none' or p['single']:
                        continue
                    t = SP.tup(p) + (seed, thorough)
                    if t not in seen:
                        seen.add(t)
                        yield t
        # long runs on overlapping clusters (EM converges within the run): a stopping rule or a convergence shortcut
        # must not depend on the class order either
        for model, nsets in (('vmfmm', 100), ('gmm', 12), ('cwmm', 12), ('cacgmm', 12)):
            for v in range(nsets if not thorough else 2 * nsets):
                for p in SP.deviations(0, fixed=dict(iterations=120, K=3, start='soft', N='big', model=model,
                                                     data='overlap', lead=()), core=()):
                    t = SP.tup(p) + (seed * 1000 + 7 + v, thorough)
                    if t not in seen:
                        seen.add(t)
                        yield t
        # many observations without leading axes: K * N beyond 2**16 elements in the (K, N) posterior
        for model in ('gmm', 'vmfmm', 'cwmm', 'cacgmm'):
            for p in SP.deviations(0, fixed=dict(base_fixed, iterations=1, K=3, start='soft', N=22000, model=model,
                                                 lead=()), core=()):
                t = SP.tup(p) + (seed, thorough)
                if t not in seen:
                    seen.add(t)
                    yield t
        # a class that holds a share of about 1e-4: whatever is done to a nearly empty class must not depend on
        # where it (or any other class) sits in the class order
        for its in (1, 2, 5):
            for K in (2, 3):
                for p in SP.deviations(0, fixed=dict(base_fixed, iterations=its, K=K, start='near_empty'),
                                       core=('model',)):
                    if p['aligner'] != 'none' or p['single']:
                        continue
                    t = SP.tup(p) + (seed, thorough)
                    if t not in seen:
                        seen.add(t)
                        yield t
        # sizes at the edge of the ranges: one-dimensional Gaussian observations, many frequency bins
        for its in (1, 2):
            for K in (2, 3):
                for p in SP.deviations(0, fixed=dict(base_fixed, iterations=its, K=K, D=1, model='gmm'), core=()):
                    for ct in ('default', 'diagonal', 'spherical'):
                        q = dict(p, covtype=ct)
                        t = SP.tup(q) + (seed, thorough)
                        if t not in seen:
                            seen.add(t)
                            yield t
                for model in ('cwmm', 'cacgmm'):
                    for p in SP.deviations(0, fixed=dict(base_fixed, iterations=its, K=K, lead=(22,), model=model),
                                           core=()):
                        t = SP.tup(p) + (seed, thorough)
                        if t not in seen:
                            seen.add(t)
                            yield t
        # pairs of the options that interact with the class axis
        for p in SP.full(('model', 'wca', 'saliency', 'mask'), fixed=dict(iterations=2, K=3)):
            t = SP.tup(p) + (seed, thorough)
            if t not in seen and p['model'] != 'cbmm':
                seen.add(t)
                yield t
    def pa_cases():
        for (K, T) in ((2, 1), (2, 2), (3, 1)) + (((3, 2),) if thorough else ()):
            for idx in range(3 ** (2 * K * T)):
                for w in ('uniform', 'graded'):
                    if K == 3 and T == 2 and (idx % 7 or w == 'graded'):
                        continue
                    yield (K, T, idx, w)
        # five classes (120 arrangements): a cross section of the tables, cyclic shifts and transpositions
        for idx in range(120 if not thorough else 1000):
            yield (5, 2, idx, 'uniform')
    return [Sub('relabelling', names, cases, run,
                bound=dict(deviations=d, K=[2, 3, 4] + ([5] if thorough else []), iterations=[1, 2, 5, 20]),
                min_nontrivial=300),
            Sub('builtin_alignment_relabelling', ('K', 'T', 'idx', 'w'), pa_cases, run_builtin_pa,
                bound=dict(grid=list(PA_GRID), tables='all spatial x spectral tables (K,T) in (2,1),(2,2),(3,1)'
                           + ('; every 7th of (3,2)' if thorough else ''), relabellings='all K!'),
                min_nontrivial=200)]
