"""C05 — mixture training is equivariant under relabelling of the classes.

Metamorphic exploration: all K! permutations of the class axis of the start (and of
the source-activity mask) x every configuration with <= d non-default options x
iteration counts; fitted fields and posteriors must be permuted along their own
class axis."""
import itertools

import numpy as np

from mc.core import Sub, ok, trivial, viol
from mc import tol
from mc.props import c01
from mc.refmodels import mixtures as M

LEVEL = 'exploration'
RULE = ('all K! relabellings (K<=3 quick, K=4 thorough; K=5: 5-cycles and transpositions) x every '
        'configuration with <= d non-default options (tying, saliency, mask, eps, norm, covariance type, '
        'stream weights, aligner, leading axes, dtype) x iterations {1,2,5,20}')
ASSUMPTIONS = ['generic tie-free data (vetted atoms); fields located by the reference shape rules']


def class_axis(name, arr, model, m):
    if name == 'gauss_cov':
        t = type(m.gaussian).__name__
        return {'Gaussian': -3, 'DiagonalGaussian': -2, 'SphericalGaussian': -1}[t]
    return M.CLASS_AXIS[name]


def perms_for(K, thorough):
    allp = list(itertools.permutations(range(K)))
    if K <= 3 or (K == 4 and thorough):
        return allp[1:]
    if K == 4:
        return [(1, 0, 2, 3), (1, 2, 3, 0), (3, 2, 1, 0), (0, 2, 3, 1)]
    out = [tuple(np.roll(np.arange(K), s)) for s in range(1, K)]
    for i in range(K - 1):
        t = list(range(K))
        t[i], t[i + 1] = t[i + 1], t[i]
        out.append(tuple(t))
    return out


def run(key):
    p = dict(key)
    seed = p.pop('seed')
    thorough = p.pop('thorough')
    p['lead'] = tuple(p['lead'])
    p['streamw'] = tuple(p['streamw'])
    if isinstance(p['wca'], list):
        p['wca'] = tuple(p['wca'])
    c = c01.build(p, seed)
    model, K, N, lead = c['model'], c['K'], c['N'], c['lead']
    if c['empty_class']:
        return trivial('start has a class without mass')
    if N < 2 * K:
        return trivial('fewer than 2K frames: parameters are not identified (ties / collapsed classes)')
    if p['aligner'] == 'builtin' and 0.0 in p['streamw']:
        return trivial('built-in alignment with a zero stream weight: every permutation ties exactly')
    shape = lead + (K, N)
    init = np.broadcast_to(c['init'], shape).copy() if p['start'] != 'soft_singleton' else c['init']
    opts = dict(c['opts'])
    mask = c['mask']
    its = p['iterations']
    try:
        m1 = M.fit(model, c['data'], init, its, **opts)
        post1 = M.predict(model, m1, c['data']) if mask is None else \
            m1.predict(c['data'], source_activity_mask=mask)
    except Exception as e:  # noqa
        # C05 is about equivariance only; whether a fit may raise is judged by C01/C09
        return trivial('fit raises on this configuration: ' + type(e).__name__)
    f1 = M.fields(model, m1)
    w1 = M.weight_full(model, m1, shape)
    # 20 EM iterations amplify rounding (un-normalised covariances reach 1e3): one more decade
    rt = 1e-5 if model == 'cbmm' else (5e-4 if c['single'] else tol.ITER * (10 if its > 5 else 1))
    n = 0
    for perm in perms_for(K, thorough):
        perm = list(perm)
        o2 = dict(opts)
        if mask is not None:
            o2['source_activity_mask'] = np.ascontiguousarray(mask[..., perm, :])
        init_p = np.ascontiguousarray(init[..., perm, :])
        try:
            m2 = M.fit(model, c['data'], init_p, its, **o2)
            post2 = M.predict(model, m2, c['data']) if mask is None else \
                m2.predict(c['data'], source_activity_mask=o2['source_activity_mask'])
        except Exception as e:  # noqa
            if model in ('gmm', 'gcacgmm'):
                cov = np.asarray(m1.gaussian.covariance)
                ev = np.linalg.eigvalsh(cov) if cov.ndim >= 2 and type(m1.gaussian).__name__ == 'Gaussian' \
                    else np.atleast_1d(cov)
                if ev.min() < 1e-8 * ev.max():
                    return trivial('EM collapsed onto a singular Gaussian (fit at the edge of raising)')
            return viol(f'{model}: fit of the relabelled start {perm} raised {e!r} (original start did not)')
        f2 = M.fields(model, m2)
        w2 = M.weight_full(model, m2, shape)
        bad = tol.mismatch(w2, w1[..., perm, :], rt, what=f'{model} weights under relabelling {perm}')
        if bad:
            return viol(bad)
        if model == 'cbmm' and max(np.abs(m_.complex_bingham.covariance_eigenvalues).max() for m_ in (m1, m2)) > 1e6:
            return trivial('Bingham concentration > 1e6: numerically rank-deficient class scatter')
        for name in f1:
            if name == 'weight' or (name == 'cacg_logeig' and c['single']):
                continue
            ax = class_axis(name, f1[name], model, m1)
            want = np.take(f1[name], perm, axis=ax)
            bad = tol.mismatch(f2[name], want, rt * (100 if name in ('watson_mode', 'vmf_mean') else 1),
                               what=f'{model} {name} under relabelling {perm}')
            if bad:
                return viol(bad)
        bad = tol.mismatch(post2, np.asarray(post1)[..., perm, :], rt * 10,
                           what=f'{model} posterior under relabelling {perm}')
        if bad:
            return viol(bad)
        n += 1
    return ok(outcome=tol.digest(np.asarray(post1)), evals=n + 1)


def subchecks(tier, seed):
    thorough = tier == 'thorough'
    SP = c01.SPACE
    names = SP.names + ['seed', 'thorough']
    d = 2 if thorough else 1

    def cases():
        seen = set()
        base_fixed = dict(data='generic')
        for its in (1, 2, 5, 20):
            for K in ((2, 3, 4, 5) if thorough else (2, 3, 4)):
                for start in ('soft', 'onehot'):
                    for p in SP.deviations(d, fixed=dict(base_fixed, iterations=its, K=K, start=start),
                                           core=('model',)):
                        if p['aligner'] != 'none' and not thorough:
                            continue
                        if p['model'] == 'cbmm' and (its == 20 or K > 3):
                            continue
                        if p['single'] and its > 2:
                            continue   # single precision: rounding is amplified by long EM runs
                        if K >= 4 and its in (2, 20) and not thorough:
                            continue
                        if start == 'onehot' and its != 2 and not thorough:
                            continue
                        t = SP.tup(p) + (seed, thorough)
                        if t not in seen:
                            seen.add(t)
                            yield t
        # pairs of the options that interact with the class axis
        for p in SP.full(('model', 'wca', 'saliency', 'mask'), fixed=dict(iterations=2, K=3)):
            t = SP.tup(p) + (seed, thorough)
            if t not in seen and p['model'] != 'cbmm':
                seen.add(t)
                yield t
    return [Sub('relabelling', names, cases, run,
                bound=dict(deviations=d, K=[2, 3, 4] + ([5] if thorough else []), iterations=[1, 2, 5, 20]),
                min_nontrivial=300)]
