"""C03 — the true partition of separable data is a stable EM fixed point.

Full product of model x K x D x prototype set x perturbation x class sizes x gains x
blur x iterations x weight tying; MAP class = truth for every observation and the
fitted class parameters point at the true prototypes."""
import math

import numpy as np

from mc.core import Sub, ok, trivial, viol
from mc import alphabet as A
from mc import tol
from mc.refmodels import mixtures as M

LEVEL = 'exploration'
RULE = ('full product of 7 models x K{2,3,4} x D{K,K+1(,8)} x prototype sets {canonical, rotated, '
        'pairwise |cos|=0.3} x perturbation {0,1e-3,1e-2} x class sizes x gains x blur x iterations '
        '{1,2,5,20} x tying')
ASSUMPTIONS = ['"small angle": <= 10*perturbation + 1e-6 for one-hot starts and for blurred starts from 5 '
               'iterations on (after one M-step from a blurred partition the estimate is the blurred '
               'mixture of the prototypes by construction); association (nearest prototype, within half '
               'the smallest inter-prototype angle) is required always']


def prototypes(seed, K, D, kind, complex_):
    if kind == 'canonical':
        P = np.eye(D)[:K].astype(complex if complex_ else float)
    else:
        if kind == 'rotated':
            G = np.eye(K)
        else:
            G = 0.7 * np.eye(K) + 0.3 * np.ones((K, K))
        L = np.linalg.cholesky(G)
        P = np.zeros((K, D), complex if complex_ else float)
        P[:, :K] = L
        U = A.unitary(seed, D, 'c03', K, kind, complex_=complex_)
        P = P @ U.T
    return P / np.linalg.norm(P, axis=-1, keepdims=True)


def class_sizes(K, D, kind):
    if kind in ('huge', 'huge_sorted'):
        # more observations than any internal block size (40 003 in total, not a multiple of a power of two)
        base = 40003 // K
        return [base + (40003 - base * K if k == 0 else 0) for k in range(K)]
    if kind == 'equal':
        return [D + 2] * K
    base = [D + 2, 2 * D + 3, 3 * D]
    return [base[k % 3] for k in range(K)]


def make(seed, model, K, D, pk, pert, sk, gk, tag):
    cplx = model in M.COMPLEX_OBS
    sizes = class_sizes(K, D, sk)
    labels = np.concatenate([np.full(s, k) for k, s in enumerate(sizes)])
    N = len(labels)
    r = A.rng(seed, 'c03data', model, K, D, pk, sk, tag)
    P = prototypes(seed, K, D, pk, cplx)
    noise = A.cnormal(r, (N, D)) if cplx else r.standard_normal((N, D))
    noise /= np.linalg.norm(noise, axis=-1, keepdims=True)
    y = P[labels] + pert * noise
    if gk == 'phasor':
        g = np.exp(2j * np.pi * r.uniform(size=N)) if cplx else np.ones(N)
    elif gk in ('mag', 'extreme'):
        mag = 10.0 ** r.uniform(-12, 12, size=N)
        if gk == 'extreme':
            mag = np.where(np.arange(N) % 2 == 0, 1e-100, 1e100)
        g = mag * (np.exp(2j * np.pi * r.uniform(size=N)) if cplx else 1.0)
    else:
        g = np.ones(N)
    if model != 'gmm':
        y = y * g[:, None]
    elif gk.startswith('all'):
        y = y * float(gk[3:])
    order = r.permutation(N) if sk != 'huge_sorted' else np.arange(N)     # 'huge_sorted': frames ordered by class
    if model == 'gmm' and gk.startswith('all'):
        P = P * float(gk[3:])
    return y[order], labels[order], P


def angle(p, v, cplx):
    c = abs(np.vdot(p, v)) / (np.linalg.norm(p) * np.linalg.norm(v))
    if not cplx:
        c = float(np.real(np.vdot(p, v))) / (np.linalg.norm(p) * np.linalg.norm(v))
    return math.acos(max(-1.0, min(1.0, c)))


def class_direction(model, m, idx, k):
    """principal eigenvector / mode / mean of class k at leading index idx."""
    if model in ('cacgmm', 'gcacgmm', 'vmfcacgmm'):
        lam = np.asarray(m.cacg.covariance_eigenvalues)[idx + (k,)]
        U = np.asarray(m.cacg.covariance_eigenvectors)[idx + (k,)]
        return U[:, int(np.argmax(lam))]
    if model == 'cwmm':
        return np.asarray(m.complex_watson.mode)[idx + (k,)]
    if model == 'cbmm':
        lam = np.asarray(m.complex_bingham.covariance_eigenvalues)[idx + (k,)]
        U = np.asarray(m.complex_bingham.covariance_eigenvectors)[idx + (k,)]
        return U[:, int(np.argmax(lam))]
    if model == 'gmm':
        return np.asarray(m.gaussian.mean)[idx + (k,)]
    if model == 'vmfmm':
        return np.asarray(m.vmf.mean)[idx + (k,)]


def run(key):
    model, K, D, pk, pert, sk, gk, blur, its, wca, seed = (key[k] for k in (
        'model', 'K', 'D', 'protos', 'pert', 'sizes', 'gains', 'blur', 'its', 'wca', 'seed'))
    wca = tuple(wca) if isinstance(wca, (list, tuple)) else wca
    integ = model in M.INTEGRATION
    cplx = model in M.COMPLEX_OBS
    F = 2 if (integ or wca != (-1,)) else 0
    lead = (F,) if F else ()
    if F:
        ys, Ps = [], []
        labels = None
        for f in range(F):
            y, lab, P = make(seed, model, K, D, pk, pert, sk, gk, ('f', f))
            # the same frame -> class assignment in every frequency
            if labels is None:
                labels = lab
            else:
                y = y[np.argsort(np.argsort(labels, kind='stable'), kind='stable')] if False else y
                # re-order frames of this frequency so that the class sequence matches
                o_ref = np.argsort(labels, kind='stable')
                o_cur = np.argsort(lab, kind='stable')
                y2 = np.empty_like(y)
                y2[o_ref] = y[o_cur]
                y = y2
            ys.append(y)
            Ps.append(P)
        y = np.stack(ys)
    else:
        y, labels, P = make(seed, model, K, D, pk, pert, sk, gk, ())
        Ps = [P]
    N = len(labels)
    if integ:
        E = K + 1
        PE = prototypes(seed, K, E, pk, False)
        r = A.rng(seed, 'c03emb', model, K, pk)
        noise = r.standard_normal((F, N, E))
        noise /= np.linalg.norm(noise, axis=-1, keepdims=True)
        emb = PE[labels][None] + pert * noise
        if model == 'vmfcacgmm' and gk in ('mag', 'extreme'):
            emb = emb * 10.0 ** r.uniform(-12, 12, size=(F, N, 1))
        data = (y, emb)
    else:
        data = y
    b = 0.0 if blur in ('onehot', 'onehot_int') else 0.4
    sizes_ = class_sizes(K, D, sk)
    if b and any((1 - b) * sizes_[k] <= b / max(K - 1, 1) * sizes_[j] for k in range(K) for j in range(K) if j != k):
        # the quantifier asks for a blur "that keeps the true class the largest": with these class sizes the mass a
        # class receives from another class exceeds the mass of its own observations
        return trivial('the blurred start does not keep the true class the largest contributor of every class')
    init = A.partition_affiliation(labels, K, blur=b if blur != 'blur_last' else 0.0, lead=lead)
    if blur == 'blur_last':
        # only the observations of the last class are blurred (0.6 own class, 0.4 spread over the others): the last
        # class starts sharp (it sees its own observations only), the other classes start broad
        init = np.array(init, dtype=float)
        sel = labels == K - 1
        init[..., :, sel] = 0.4 / (K - 1)
        init[..., K - 1, sel] = 0.6
    if blur == 'onehot_int':
        init = init.astype(np.int64)        # the true partition as an integer 0/1 array
    if gk == 'f32':
        # single precision for the real (vMF) stream; the complex observation of the integration model stays double
        data = (data[0], np.asarray(data[1]).astype(np.float32)) if integ else data.astype(np.float32)
        init = init.astype(np.float32)
    opts = dict(weight_constant_axis=wca)
    tkw = dict(max_concentration=500.0) if gk == 'kmax500' else None
    try:
        m = M.fit(model, data, init, its, trainer_kw=tkw, **opts)
        post = np.asarray(M.predict(model, m, data))
    except Exception as e:  # noqa
        if pert == 0 and model in ('gmm', 'gcacgmm', 'cbmm'):
            return trivial('exactly degenerate classes: no maximum-likelihood estimate: ' + type(e).__name__)
        return viol(f'{model}: fit/predict raised on separable data: {e!r}')
    if post.shape != lead + (K, N) or not np.isfinite(post).all():
        return viol(f'{model}: posterior shape {post.shape} / non-finite')
    mp = post.argmax(-2)
    if not np.array_equal(mp, np.broadcast_to(labels, lead + (N,))):
        wrong = int((mp != np.broadcast_to(labels, lead + (N,))).sum())
        return viol(f'{model}: {wrong} of {mp.size} observations are not assigned to their true class '
                    f'after {its} iterations')
    if not integ and its <= 2:
        # the posterior handed out by fit_predict (second public route to the same quantity)
        try:
            fp = np.asarray(M.trainer(model, **(tkw or {})).fit_predict(data, initialization=init, iterations=its, **opts))
        except Exception as e:  # noqa
            return viol(f'{model}: fit_predict raised on separable data: {e!r}')
        if fp.shape != lead + (K, N) or not np.isfinite(fp).all():
            return viol(f'{model}: fit_predict posterior shape {fp.shape} / non-finite')
        mpf = fp.argmax(-2)
        if not np.array_equal(mpf, np.broadcast_to(labels, lead + (N,))):
            wrong = int((mpf != np.broadcast_to(labels, lead + (N,))).sum())
            return viol(f'{model}: fit_predict: {wrong} of {mpf.size} observations are not assigned to their '
                        f'true class after {its} iterations')
    # parameters point at the prototypes
    limit_tight = 10 * pert + (1e-3 if gk == 'f32' else 1e-6)
    if model == 'gmm' and gk.startswith('all'):
        limit_tight *= float(gk[3:])      # distances between means scale with the data
    worst = 0.0
    sizes = class_sizes(K, D, sk)
    # a blurred start keeps class k's own prototype dominant in its first M-step only if
    # (1-b) n_k clearly exceeds b/(K-1) n_j; otherwise "points at the prototype" is not defined
    # before EM has converged (mathematics of the blurred partition, not of the implementation)
    dominant = all((1 - b) * sizes[k] >= 1.5 * (b / max(K - 1, 1)) * max(sizes) for k in range(K))
    check_assoc = blur in ('onehot', 'onehot_int') or dominant
    check_tight = blur in ('onehot', 'onehot_int') or its >= 20
    secondary = []
    if integ:
        PE_ = PE
        sec = m.gaussian.mean if model == 'gcacgmm' else m.vmf.mean
        for k in range(K):
            v = np.asarray(sec)[k]
            if model == 'gcacgmm':
                dists = [float(np.linalg.norm(v - PE_[j])) for j in range(K)]
            else:
                dists = [angle(PE_[j], v, False) for j in range(K)]
            secondary.append((k, dists))
    for fi, idx in enumerate(np.ndindex(*lead)):
        P = Ps[fi if F else 0]
        if cplx:
            inter = min(angle(P[i], P[j], True) for i in range(K) for j in range(i + 1, K))
        elif model == 'gmm':
            inter = min(float(np.linalg.norm(P[i] - P[j])) for i in range(K) for j in range(i + 1, K))
        else:
            inter = min(angle(P[i], P[j], False) for i in range(K) for j in range(i + 1, K))
        for k in range(K):
            v = class_direction(model, m, idx, k)
            if model == 'gmm':
                dists = [float(np.linalg.norm(v - P[j])) for j in range(K)]
            else:
                dists = [angle(P[j], v, cplx) for j in range(K)]
            if check_assoc and (int(np.argmin(dists)) != k or dists[k] > inter / 2):
                return viol(f'{model}: class {k} parameter is not associated with prototype {k} '
                            f'(distances {np.round(dists, 4).tolist()}, half gap {inter / 2:.4f})')
            worst = max(worst, dists[k])
            if check_tight and dists[k] > limit_tight:
                return viol(f'{model}: class {k} parameter deviates {dists[k]:.3e} from its prototype '
                            f'(allowed {limit_tight:.1e}) after {its} iterations')
    for k, dists in secondary:
        if check_assoc and int(np.argmin(dists)) != k:
            return viol(f'{model}: embedding-stream class {k} not associated with its prototype')
        if check_tight and dists[k] > limit_tight:
            return viol(f'{model}: embedding-stream class {k} deviates {dists[k]:.3e} (allowed {limit_tight:.1e})')
    return ok(outcome=f'{model}:{round(worst, 6)}:{its}',
              detail=dict(worst=worst, ratio=worst / limit_tight if check_tight else None))


def subchecks(tier, seed):
    thorough = tier == 'thorough'

    def cases():
        for model in M.MODELS:
            integ = model in M.INTEGRATION
            for K in (2, 3, 4):
                Ds = (K, K + 1, 8) if thorough else (K, K + 1)
                for D in Ds:
                    if model == 'cbmm' and (D > 6 or K > 3 or (not thorough and D > K)):
                        continue
                    if model in ('cacgmm', 'cwmm', 'cbmm', 'gcacgmm', 'vmfcacgmm') and D < 2:
                        continue
                    for pk in ('canonical', 'rotated', 'cos0.3'):
                        perts = (1e-3, 1e-2) if model == 'cbmm' else (1e-9, 1e-3, 1e-2) if model in ('gmm', 'gcacgmm') \
                            else (0.0, 1e-3, 1e-2)
                        for pert in perts:
                            for sk in ('equal', 'unequal'):
                                # GMM: one common scale of the whole data set (the fixed point is scale equivariant)
                                gks = ('one', 'all1e-6', 'all1e6') if model == 'gmm' else ('one', 'phasor', 'mag', 'extreme')
                                if model in ('vmfmm', 'vmfcacgmm'):
                                    gks = gks + ('f32',)      # single-precision observations and start
                                if model == 'cbmm':
                                    gks = gks + ('kmax500',)  # trainer with a finite max_concentration
                                for gk in gks:
                                    if model == 'vmfmm' and gk == 'phasor':
                                        continue
                                    if gk == 'f32' and pert == 0.0:
                                        continue     # exactly collinear classes are degenerate in single precision
                                    for blur in ('onehot', 'blur', 'onehot_int', 'blur_last'):
                                        if blur == 'blur_last' and (gk != 'one' or pert not in (1e-3, 1e-2) or integ):
                                            continue
                                        if blur == 'onehot_int' and (gk != 'one' or sk != 'equal' or pert != 1e-3 or integ):
                                            continue
                                        if pert == 1e-9 and blur != 'onehot':
                                            # a blurred class covariance has condition number (1/pert)^2 = 1e18:
                                            # not representable in double precision
                                            continue
                                        for its in (1, 2, 5, 20):
                                            wcas = ((-1,), (-3,)) if integ else ((-1,), (-3,))
                                            for wca in wcas:
                                                if model == 'cbmm' and (its == 20 or wca != (-1,)) and not thorough:
                                                    continue
                                                if not thorough and wca != (-1,) and \
                                                        (its not in (2, 20) or sk != 'equal' or gk == 'phasor'):
                                                    continue
                                                yield (model, K, D, pk, pert, sk, gk, blur, its, wca, seed)
    def huge_cases():
        for model in ('gmm', 'gcacgmm'):
            for its in (1, 2):
                yield (model, 2, 2, 'rotated', 1e-2, 'huge', 'one', 'onehot', its, (-1,), seed)
        for model in ('cacgmm', 'cwmm', 'vmfmm'):
            for K, D in ((2, 2), (3, 4)):
                yield (model, K, D, 'rotated', 1e-2, 'huge', 'phasor' if model != 'vmfmm' else 'one', 'onehot', 2,
                       (-1,), seed)
                yield (model, K, D, 'rotated', 1e-2, 'huge_sorted', 'one', 'onehot', 1, (-1,), seed)
    huge = Sub('fixed_point_many_observations',
               ('model', 'K', 'D', 'protos', 'pert', 'sizes', 'gains', 'blur', 'its', 'wca', 'seed'),
               huge_cases, run, bound=dict(N=40003))
    return [huge, Sub('fixed_point',
                ('model', 'K', 'D', 'protos', 'pert', 'sizes', 'gains', 'blur', 'its', 'wca', 'seed'),
                cases, run, bound=dict(K=[2, 3, 4], D='K, K+1' + (', 8' if thorough else ''),
                                       iterations=[1, 2, 5, 20]), min_nontrivial=500)]
