"""C14 — permutation alignment only reorders classes.

Exhaustive: every score matrix over {0,1,2} (K<=3), every {0,1} mask of the small
shapes x metric x algorithm x aligner x every DHTV plan; the aligner procedure
is run as a reference state machine (mc.refmodels.alignment) next to the
implementation; inline alignment inside EM through the iteration hook; built-in
spatial/spectral alignment of the integration models on all 3-value tables."""
import itertools

import numpy as np

from mc.core import Sub, ok, trivial, viol
from mc import alphabet as A
from mc.refmodels import alignment as R
from mc import tol

LEVEL = 'model_checking'
RULE = ('all score matrices over {0,1,2}^(KxK); all {0,1}^(KxFxT) masks x metric x '
        'algorithm x every DHTV (start,width,shift<=width) plan; generic masks; '
        'inline alignment in EM via hook; all 3-value log-pdf tables')
ASSUMPTIONS = [
    'reference assignment rules: greedy = first maximal entry in row-major order, '
    'optimal = first maximal permutation in lexicographic order',
    'equality with the reference transcription is skipped at near-ties (|gap|<=1e-9, not exact)',
]

METRICS = ('cos', 'euclidean', 'multiply')
ALGS = ('greedy', 'optimal')


def _pa():
    import pb_bss.permutation_alignment as pa
    return pa


# ---------------------------------------------------------------- (a) score matrices

def _matrix(K, idx, base=3):
    digits = []
    for _ in range(K * K):
        digits.append(idx % base)
        idx //= base
    return np.array(digits[::-1]).reshape(K, K)


def run_score(key):
    pa = _pa()
    K, idx, base = key['K'], key['idx'], key['base']
    M = _matrix(K, idx, base)
    outs = []
    for dtype in (np.int64, np.float64):
        S = M.astype(dtype)
        S0 = S.copy()
        for alg in ALGS:
            try:
                m = pa._mapping_from_score_matrix(S, algorithm=alg)
            except Exception as e:  # noqa
                return viol(f'_mapping_from_score_matrix raised {e!r}', key)
            m = np.asarray(m)
            if m.shape != (K,):
                return viol(f'mapping shape {m.shape} != ({K},)', m.tolist())
            if sorted(m.tolist()) != list(range(K)):
                return viol(f'{alg}/{dtype.__name__}: assignment is not a permutation',
                            m.tolist(), 'permutation of 0..K-1')
            if not np.array_equal(S, S0):
                return viol('score matrix modified in place')
            ref = R.assign(M, alg)
            if m.tolist() != ref.tolist():
                return viol(f'{alg}/{dtype.__name__}: assignment differs from reference rule',
                            m.tolist(), ref.tolist())
            outs.append(tuple(m.tolist()))
    # the assignment depends only on the order of the scores: positive rescaling and shifting by huge or
    # tiny finite amounts must still give a permutation (and, where exact, the same one)
    for scale, shift in ((1e17, 0.0), (1e-17, 0.0), (1e300, 0.0), (2.0 ** 55, -2.0 ** 60), (1.0, 2.0 ** 50)):
        S2 = M.astype(np.float64) * scale + shift
        for alg in ALGS:
            try:
                m2 = np.asarray(pa._mapping_from_score_matrix(S2, algorithm=alg))
            except Exception as e:  # noqa
                return viol(f'_mapping_from_score_matrix raised {e!r} for scores scaled by {scale}, shifted by {shift}')
            if sorted(m2.tolist()) != list(range(K)):
                return viol(f'{alg}: assignment {m2.tolist()} is not a permutation for scores scaled by {scale} '
                            f'and shifted by {shift}', S2.tolist())
            if alg == 'greedy' and m2.tolist() != R.assign(M, alg).tolist():
                return viol(f'greedy assignment changes under order-preserving rescaling ({scale}, {shift})',
                            m2.tolist(), R.assign(M, alg).tolist())
    flags = []
    if outs[0] != outs[1]:
        flags.append('greedy_ne_optimal')
    if list(outs[0]) == list(range(K)):
        flags.append('identity')
    else:
        flags.append('non_identity')
    return ok(outcome=str(outs), evals=14, flags=flags, states=1, transitions=14)


def run_score_stack(key):
    pa = _pa()
    K, block, lead, alg = key['K'], key['block'], tuple(key['lead']), key['alg']
    n = int(np.prod(lead))
    mats = np.stack([_matrix(K, (block * n + i) % 3 ** (K * K)) for i in range(n)])
    S = mats.reshape(lead + (K, K)).astype(np.float64)
    m = np.asarray(pa._mapping_from_score_matrix(S, algorithm=alg))
    if m.shape != (K,) + lead:
        return viol(f'stacked mapping shape {m.shape} != {(K,) + lead}')
    flat = m.reshape(K, n)
    for i in range(n):
        ref = R.assign(mats[i], alg)
        if flat[:, i].tolist() != ref.tolist():
            return viol(f'stacked assignment of matrix {i} differs from the single-matrix rule',
                        flat[:, i].tolist(), ref.tolist())
    return ok(outcome=tol.digest(m), evals=n, states=n, transitions=n)


# ---------------------------------------------------------------- (b) all 0/1 masks

def _mask01(K, F, T, idx):
    n = K * F * T
    bits = [(idx >> i) & 1 for i in range(n)]
    return np.array(bits[::-1], dtype=np.float64).reshape(K, F, T)


def plans_for(F):
    out = []
    for start in range(0, F):
        for width in range(1, F - start + 1):
            for shift in range(1, width + 1):
                out.append((start, width, shift))
    return out


def _check_mapping(pa, mask, mapping, what):
    K, F = mask.shape[:2]
    mapping = np.asarray(mapping)
    if mapping.shape != (K, F):
        return viol(f'{what}: mapping shape {mapping.shape} != {(K, F)}')
    if mapping.dtype.kind not in 'iu':
        return viol(f'{what}: mapping dtype {mapping.dtype}')
    if not R.is_permutation_columns(mapping, K):
        return viol(f'{what}: a column of the mapping is not a permutation of 0..K-1',
                    mapping.tolist())
    applied = pa.apply_mapping(mask, mapping)
    want = R.apply_mapping_loop(mask, mapping)
    bad = tol.exact(applied, want, 'apply_mapping')
    if bad:
        return viol(f'{what}: {bad}', applied, want)
    if tol.exact(applied.sum(0), mask.sum(0)) and \
            tol.mismatch(applied.sum(0), mask.sum(0), 1e-12):
        return viol(f'{what}: class-axis sums changed')
    for f in range(F):
        a = sorted(map(tuple, np.asarray(applied[:, f]).reshape(K, -1).tolist()))
        b = sorted(map(tuple, np.asarray(mask[:, f]).reshape(K, -1).tolist()))
        if a != b:
            return viol(f'{what}: multiset of rows changed in bin {f}', a, b)
    return None


def run_mask(key):
    pa = _pa()
    K, F, T, idx = key['K'], key['F'], key['T'], key['idx']
    mask = _mask01(K, F, T, idx)
    mask.setflags(write=False)
    evals = 0
    trans = 0
    outs = []
    flags = set()
    # greedy (adjacent-bin) aligner
    for metric in METRICS:
        for alg in ALGS:
            al = pa.GreedyPermutationAlignment(similarity_metric=metric, algorithm=alg)
            try:
                m = al.calculate_mapping(mask)
            except Exception as e:  # noqa
                return viol(f'Greedy({metric},{alg}).calculate_mapping raised {e!r}')
            bad = _check_mapping(pa, mask, m, f'Greedy({metric},{alg})')
            if bad:
                return bad
            ref, amb = R.greedy_chain(mask, metric)
            if not amb and not np.array_equal(m, ref):
                return viol(f'Greedy({metric},{alg}): mapping differs from the reference chain',
                            np.asarray(m).tolist(), ref.tolist())
            if not np.array_equal(al(mask), pa.apply_mapping(mask, m)):
                return viol(f'Greedy({metric},{alg}): __call__ != apply_mapping(calculate_mapping)')
            evals += 1
            trans += F - 1
            outs.append(tol.digest(m))
    # DHTV with every plan
    for (start, width, shift) in plans_for(F):
        for metric in METRICS:
            for alg in ALGS:
                al = pa.DHTVPermutationAlignment(
                    stft_size=2 * (F - 1), segment_start=start, segment_width=width,
                    segment_shift=shift, main_iterations=3, sub_iterations=2,
                    similarity_metric=metric, algorithm=alg)
                what = f'DHTV({start},{width},{shift},{metric},{alg})'
                try:
                    m = al.calculate_mapping(mask)
                except Exception as e:  # noqa
                    return viol(f'{what}.calculate_mapping raised {e!r}')
                bad = _check_mapping(pa, mask, m, what)
                if bad:
                    return bad
                ref, feats, amb = R.dhtv(mask, F, start, width, shift, 3, 2, metric, alg)
                if not amb:
                    if not np.array_equal(m, ref):
                        return viol(f'{what}: mapping is not the state reached by the '
                                    f'reference state machine', np.asarray(m).tolist(), ref.tolist())
                    flags.add('dhtv_ref_equal')
                else:
                    flags.add('dhtv_ambiguous')
                if np.array_equal(m, np.repeat(np.arange(K)[:, None], F, 1)):
                    flags.add('identity')
                else:
                    flags.add('non_identity')
                evals += 1
                trans += len(al.alignment_plan)
                outs.append(tol.digest(m))
    return ok(outcome=str(outs), evals=evals, flags=sorted(flags), states=evals,
              transitions=trans)



def run_mask_dtypes(key):
    """the same binary masks in other real dtypes (single/half precision, integers)."""
    pa = _pa()
    K, F, T, idx, dt = key['K'], key['F'], key['T'], key['idx'], key['dtype']
    mask64 = _mask01(K, F, T, idx)
    mask = mask64.astype(np.dtype(dt))
    mask.setflags(write=False)
    refs = REF_MASK_IDS[(K, F, T)][:2]
    evals = 0
    outs = []
    for metric in METRICS:
        for alg in ALGS:
            todo = [('Greedy', pa.GreedyPermutationAlignment(similarity_metric=metric, algorithm=alg), None)]
            for rid in refs:
                todo.append(('Oracle', pa.OraclePermutationAlignment(similarity_metric=metric, algorithm=alg),
                             _mask01(K, F, T, rid).astype(np.dtype(dt))))
            for (start, width, shift) in ((0, F, 1), (1, 1, 1), (0, 2, 1)):
                todo.append((f'DHTV({start},{width},{shift})', pa.DHTVPermutationAlignment(
                    stft_size=2 * (F - 1), segment_start=start, segment_width=width,
                    segment_shift=shift, main_iterations=3, sub_iterations=2,
                    similarity_metric=metric, algorithm=alg), None))
            for name, al, ref_mask in todo:
                what = f'{name}({metric},{alg},{dt})'
                try:
                    m = al.calculate_mapping(mask) if ref_mask is None else \
                        al.calculate_mapping(mask, ref_mask)
                except Exception as e:  # noqa
                    return viol(f'{what}.calculate_mapping raised {e!r}')
                bad = _check_mapping(pa, mask, m, what)
                if bad:
                    return bad
                if metric != 'cos':
                    if name == 'Greedy':
                        r, amb = R.greedy_chain(mask64, metric, strict=dt.startswith('float'))
                    elif name == 'Oracle':
                        r, amb = R.oracle(mask64, ref_mask.astype(float), metric, alg, strict=dt.startswith('float'))
                    else:
                        st, wi, sh = al.segment_start, al.segment_width, al.segment_shift
                        r, _, amb = R.dhtv(mask64, F, st, wi, sh, 3, 2, metric, alg, strict=dt.startswith('float'))
                    if not amb and not np.array_equal(m, r):
                        return viol(f'{what}: mapping differs from the reference procedure',
                                    np.asarray(m).tolist(), r.tolist())
                evals += 1
                outs.append(tol.digest(m))
    return ok(outcome=str(outs), evals=evals, states=evals, transitions=evals * F)


REF_MASK_IDS = {  # vetted small reference masks (bit patterns), per shape
    (2, 3, 2): [0b110011001100 ^ 0b111111000000, 0b101001011010, 0b100110011001, 0b111000000111],
    (3, 3, 1): [0b100010001, 0b110011101, 0b001010100],
    (2, 5, 1): [0b1010101010, 0b1100110011, 0b1111100000],
}


def run_oracle01(key):
    pa = _pa()
    K, F, T, idx, rid = key['K'], key['F'], key['T'], key['idx'], key['ref']
    mask = _mask01(K, F, T, idx)
    ref_mask = _mask01(K, F, T, rid)
    evals = 0
    outs = []
    for metric in METRICS:
        for alg in ALGS:
            al = pa.OraclePermutationAlignment(similarity_metric=metric, algorithm=alg)
            what = f'Oracle({metric},{alg})'
            try:
                m = al.calculate_mapping(mask, ref_mask)
            except Exception as e:  # noqa
                return viol(f'{what}.calculate_mapping raised {e!r}')
            bad = _check_mapping(pa, mask, m, what)
            if bad:
                return bad
            # calling the aligner applies exactly the mapping it calculates (also when it is the same
            # non-identity permutation in every bin)
            try:
                called = al(mask, ref_mask)
            except Exception as e:  # noqa
                return viol(f'{what}.__call__ raised {e!r}')
            if tol.exact(np.asarray(called), R.apply_mapping_loop(mask, np.asarray(m)), '__call__'):
                return viol(f'{what}: __call__ does not return the mask re-ordered with calculate_mapping '
                            f'(mapping {np.asarray(m).tolist()})')
            r, amb = R.oracle(mask, ref_mask, metric, alg)
            if not amb and not np.array_equal(m, r):
                return viol(f'{what}: mapping differs from the reference per-bin assignment',
                            np.asarray(m).tolist(), r.tolist())
            evals += 1
            outs.append(tol.digest(m))
    return ok(outcome=str(outs), evals=evals, states=evals, transitions=evals * F)


# ---------------------------------------------------------------- (c) generic masks

def run_apply_dtypes(key):
    """apply_mapping with a mapping stored in a small integer dtype (as a caller may keep it) and many bins."""
    pa = _pa()
    K, F, T, dt, seed = key['K'], key['F'], key['T'], key['dtype'], key['seed']
    r = A.rng(seed, 'c14applydt', K, F, T)
    mask = r.uniform(0.05, 1.0, size=(K, F, T))
    mapping = np.stack([r.permutation(K) for _ in range(F)], axis=1).astype(dt)
    mask.setflags(write=False)
    mapping.setflags(write=False)
    try:
        got = np.asarray(pa.apply_mapping(mask, mapping))
    except Exception as e:  # noqa
        return viol(f'apply_mapping raised {e!r} for a {dt} mapping')
    want = R.apply_mapping_loop(mask, mapping.astype(np.int64))
    bad = tol.exact(got, want, f'apply_mapping with a {dt} mapping (K={K}, F={F})')
    if bad:
        return viol(bad)
    return ok(outcome=tol.digest(want), evals=1, states=1, transitions=F)


def run_generic(key):
    pa = _pa()
    K, F, T, metric, alg, seed = (key[k] for k in ('K', 'F', 'T', 'metric', 'alg', 'seed'))
    r = A.rng(seed, 'c14generic', K, F, T)
    mask = r.uniform(0.05, 1.0, size=(K, F, T))
    if key['kind'] == 'const_rows':
        mask[:, F // 2] = 0.5
    elif key['kind'] == 'zero_bin':
        mask[:, F // 3] = 0.0
    elif key['kind'] == 'tied_rows':
        mask[1 % K, :, :] = mask[0, :, :]
    elif key['kind'] == 'huge':
        mask = mask * 1e9
    elif key['kind'] == 'tiny':
        mask = mask * 1e-150
    elif key['kind'].startswith('layout_'):
        # generic values handed over in another memory layout (Fortran order, permuted axes, strided, reversed)
        mask = A.relayout(mask, key['kind'][len('layout_'):])
    mask.setflags(write=False)
    snap = mask.copy()
    evals = 0
    cfgs = [('greedy_aligner', None)]
    w = max(1, F // 3)
    for (start, width, shift) in {(0, F, 1), (F // 3, w, max(1, w // 2)), (F - w, w, w),
                                  (0, 1, 1), (F // 2, 1, 1)}:
        if start + width <= F:
            cfgs.append(('dhtv', (start, width, shift)))
    outs = []
    for name, p in cfgs:
        if name == 'greedy_aligner':
            al = pa.GreedyPermutationAlignment(similarity_metric=metric, algorithm=alg)
            ref, amb = R.greedy_chain(mask, metric, strict=True)
        else:
            al = pa.DHTVPermutationAlignment(
                stft_size=2 * (F - 1), segment_start=p[0], segment_width=p[1],
                segment_shift=p[2], main_iterations=4, sub_iterations=2,
                similarity_metric=metric, algorithm=alg)
            ref, _, amb = R.dhtv(mask, F, p[0], p[1], p[2], 4, 2, metric, alg, strict=True)
        what = f'{name}{p}({metric},{alg})'
        try:
            m = al.calculate_mapping(mask)
        except Exception as e:  # noqa
            return viol(f'{what}.calculate_mapping raised {e!r}')
        bad = _check_mapping(pa, mask, m, what)
        if bad:
            return bad
        if not amb and (key['kind'] in ('generic', 'huge') or key['kind'].startswith('layout_')) and \
                not np.array_equal(m, ref):
            return viol(f'{what}: mapping differs from the reference procedure',
                        np.asarray(m).tolist(), ref.tolist())
        evals += 1
        outs.append(tol.digest(m))
    if not np.array_equal(mask, snap):
        return viol('input mask modified')
    return ok(outcome=str(outs), evals=evals, states=evals, transitions=evals * F)


# ---------------------------------------------------------------- (d) inline alignment

def run_inline(key):
    from pb_bss.distribution.mixture_model_utils import apply_inline_permutation_alignment
    pa = _pa()
    K, F, T, wca, with_q, seed = (key[k] for k in ('K', 'F', 'T', 'wca', 'q', 'seed'))
    wca = tuple(wca) if isinstance(wca, (list, tuple)) else wca
    r = A.rng(seed, 'inline', K, F, T)
    aff = r.uniform(0.05, 1, size=(F, K, T))
    aff /= aff.sum(1, keepdims=True)
    q = r.uniform(0.5, 2.0, size=(F, K, T))
    aligner = pa.GreedyPermutationAlignment('cos') if key['aligner'] == 'greedy' else \
        pa.DHTVPermutationAlignment(stft_size=2 * (F - 1), segment_start=F // 3,
                                    segment_width=max(1, F // 3), segment_shift=max(1, F // 6),
                                    main_iterations=3, sub_iterations=2)
    aff.setflags(write=False)
    q.setflags(write=False)
    try:
        res = apply_inline_permutation_alignment(
            affiliation=aff, quadratic_form=q if with_q else None,
            weight_constant_axis=wca, aligner=aligner)
    except Exception as e:  # noqa
        return viol(f'apply_inline_permutation_alignment raised {e!r}')
    if with_q:
        a2, q2 = res
    else:
        a2, q2 = res, None
    if a2.shape != aff.shape:
        return viol(f'shape {a2.shape} != {aff.shape}')
    nonid = False
    for f in range(F):
        # identify the permutation on tie-free rows
        perm = []
        for k in range(K):
            hits = [j for j in range(K) if np.array_equal(a2[f, k], aff[f, j])]
            if len(hits) != 1:
                return viol(f'bin {f}: output row {k} is not exactly one input row', hits)
            perm.append(hits[0])
        if sorted(perm) != list(range(K)):
            return viol(f'bin {f}: rows duplicated/dropped', perm)
        if perm != list(range(K)):
            nonid = True
        if q2 is not None:
            for k in range(K):
                if not np.array_equal(q2[f, k], q[f, perm[k]]):
                    return viol(f'bin {f}: quadratic form not permuted like the affiliation', perm)
    return ok(outcome=tol.digest(a2), flags=['non_identity' if nonid else 'identity'],
              states=1, transitions=F)


def run_inline_em(key):
    """cACGMM / cWMM / cBMM fits with an inline aligner, observed through the hook:
    in every iteration the (affiliation, quadratic form) handed to the M-step is a
    per-frequency row permutation of the model's own E-step result."""
    from pb_bss import _verif
    import pb_bss.distribution as d
    pa = _pa()
    model, K, F, T, D, seed = (key[k] for k in ('model', 'K', 'F', 'T', 'D', 'seed'))
    y, labels = A.clustered_data(seed, (F,), K, T // K, D, 'c14em', noise=0.3)
    N = y.shape[-2]
    r = A.rng(seed, 'c14em-perm', model, K, F)
    init = A.partition_affiliation(labels, K, blur=0.3, lead=(F,))
    for f in range(F):
        init[f] = init[f][r.permutation(K)]
    aligner = pa.GreedyPermutationAlignment('cos') if key['aligner'] == 'greedy' else \
        pa.DHTVPermutationAlignment(stft_size=2 * (F - 1), segment_start=1,
                                    segment_width=max(1, F // 2), segment_shift=1,
                                    main_iterations=3, sub_iterations=2)
    mask = None
    extra = {}
    if key.get('mask'):
        # a source-activity mask together with the inline aligner: the last class is inactive in the first half
        # of the frames; the alignment may only reorder what the masked E-step produced
        mask = np.ones((F, K, N), dtype=bool)
        mask[:, K - 1, : N // 2] = False
        extra['source_activity_mask'] = mask
    trace = []
    _verif.clear()
    _verif.register(lambda **kw: trace.append(kw))
    try:
        wca = (-3,) if key['wca'] == 'f' else (-3, -1)
        if model == 'cacgmm':
            tr = d.CACGMMTrainer()
        elif model == 'cwmm':
            tr = d.CWMMTrainer()
        else:
            tr = d.CBMMTrainer()
        tr.fit(y, initialization=init, iterations=4, weight_constant_axis=wca,
               inline_permutation_aligner=aligner, **extra)
    except Exception as e:  # noqa
        return viol(f'{model} fit with inline aligner raised {e!r}')
    finally:
        _verif.clear()
    if len(trace) != 4:
        return viol(f'hook reported {len(trace)} iterations, expected 4')
    nonid = 0
    for it in range(1, 4):
        prev = trace[it - 1]['model']
        if model == 'cacgmm':
            e_aff, e_q = prev.predict(y, return_quadratic_form=True, source_activity_mask=mask)
            # EM uses affiliation_eps (clip): compare on the un-clipped permutation structure
            e_aff = np.clip(e_aff, 1e-10, 1 - 1e-10)
        elif model == 'cwmm':
            e_aff, e_q = prev.predict(y), None
        else:
            e_aff, e_q = prev.predict(y), None
        got = trace[it]['affiliation']
        got_q = trace[it]['quadratic_form']
        for f in range(F):
            perm = []
            for k in range(K):
                hits = [j for j in range(K)
                        if np.allclose(got[f, k], e_aff[f, j], rtol=1e-9, atol=1e-12)]
                if len(hits) != 1:
                    return viol(f'iteration {it} bin {f}: M-step affiliation row {k} matches '
                                f'{len(hits)} rows of the E-step posterior')
                perm.append(hits[0])
            if sorted(perm) != list(range(K)):
                return viol(f'iteration {it} bin {f}: class rows duplicated/dropped', perm)
            nonid += perm != list(range(K))
            if e_q is not None:
                for k in range(K):
                    if not np.allclose(got_q[f, k], e_q[f, perm[k]], rtol=1e-9, atol=1e-300):
                        return viol(f'iteration {it} bin {f}: quadratic form carries a different '
                                    f'permutation than the affiliation', perm)
    return ok(outcome=tol.digest(trace[-1]['affiliation']),
              flags=['non_identity'] if nonid else ['identity'],
              states=4, transitions=3 * F, evals=3)


# ---------------------------------------------------------------- (e) built-in PA

GRID = (0.0, -1.0, -3.0)
WIDE = (0.0, -800.0, -2000.0)    # class log-likelihoods further apart than the exp() range
FINE = (-3.0, -3.001, -3.002)     # nearly tied classes with a clearly negative criterion
MIXED = (0.0, -1.0, -100.0)     # one class decided (100 nats away), the other two within a nat of each other
NEGINF = (0.0, -1.0, -np.inf)     # classes that are impossible for an observation (log-density -inf)


def run_builtin(key):
    from pb_bss.distribution.mixture_model_utils import (
        log_pdf_to_affiliation_for_integration_models_with_inline_pa as f_pa)
    K, F, T, idx, wkind = key['K'], key['F'], key['T'], key['idx'], key['w']
    n = K * F * T
    digits = []
    x = idx
    grid = {'wide': WIDE, 'fine': FINE, 'neginf': NEGINF, 'mixed': MIXED}.get(key.get('grid'), GRID)
    for _ in range(2 * n):
        digits.append(grid[x % 3])
        x //= 3
    sp = np.array(digits[:n]).reshape(F, K, T)
    se = np.array(digits[n:]).reshape(F, K, T)
    if key.get('grid') == 'long':
        # two observations per table: the first one is repeated 4096 times, the second one 5 times (4101 frames) -
        # the few last frames decide whenever the head ties
        rep = np.array([4096, 5])
        sp, se = np.repeat(sp, rep, axis=-1), np.repeat(se, rep, axis=-1)
        T = sp.shape[-1]
    if wkind == 'uniform':
        w = np.full((K, 1), 1.0 / K)
    else:
        w = (np.arange(1, K + 1, dtype=float) / np.arange(1, K + 1).sum())[:, None]
    sp.setflags(write=False)
    se.setflags(write=False)
    try:
        aff = f_pa(weight=w, spatial_log_pdf=sp, spectral_log_pdf=se, affiliation_eps=0.)
    except Exception as e:  # noqa
        return viol(f'built-in alignment raised {e!r}')
    if aff.shape != (F, K, T):
        return viol(f'shape {aff.shape}')
    if key.get('grid') == 'neginf':
        # tables with impossible classes (log-density -inf): the criterion of every arrangement is 0 * (-inf);
        # required is only that the result is finite, non-negative and the posterior of SOME arrangement of the
        # spatial rows (each spatial class used exactly once), columns without any possible class being all zero
        if not np.isfinite(aff).all() or (aff < 0).any():
            return viol('result is not finite / non-negative for tables with -inf entries', aff)
        for f in range(F):
            found = False
            for p in itertools.permutations(range(K)):
                L = sp[f][list(p)] + se[f]
                with np.errstate(all='ignore'):
                    mx = np.where(np.isfinite(L.max(0, keepdims=True)), L.max(0, keepdims=True), 0.0)
                    g = np.exp(L - mx) * w
                    z = g.sum(0, keepdims=True)
                    g = np.where(z > 0, g / np.where(z > 0, z, 1.0), 0.0)
                if np.abs(g - aff[f]).max() <= 1e-12:
                    found = True
                    break
            if not found:
                return viol(f'bin {f}: result is not the posterior of any arrangement of the spatial classes '
                            f'(tables with -inf entries)', aff[f])
        return ok(outcome=tol.digest(aff), flags=['neginf'], states=F, transitions=F)
    if not np.isfinite(aff).all() or (aff < 0).any() or \
            np.abs(aff.sum(1) - 1).max() > 1e-12:
        return viol('result is not a distribution over classes', aff)
    flags = set()
    for f in range(F):
        best = None
        cands = []
        for p in itertools.permutations(range(K)):
            L = sp[f][list(p)] + se[f]
            g = np.exp(L - L.max(0, keepdims=True))
            g = g / g.sum(0, keepdims=True)
            aux = float(np.sum(g * L))
            gw = np.exp(L - L.max(0, keepdims=True)) * w
            gw = gw / gw.sum(0, keepdims=True)
            cands.append((aux, p, gw))
            if best is None or aux > best:
                best = aux
        ident_aux = cands[0][0]
        hit = [c for c in cands if np.abs(c[2] - aff[f]).max() <= 1e-12]
        if not hit:
            return viol(f'bin {f}: result is not the posterior of any row permutation', aff[f])
        top = max(h[0] for h in hit)
        if top < best - 1e-12 * (1 + abs(best)):
            return viol(f'bin {f}: chosen permutation does not attain the maximal criterion',
                        top, best)
        if top < ident_aux - 1e-12:
            return viol(f'bin {f}: chosen permutation is worse than the identity')
        flags.add('identity' if any(h[1] == tuple(range(K)) for h in hit) else 'non_identity')
    return ok(outcome=tol.digest(aff), flags=sorted(flags), states=F, transitions=F)


# ---------------------------------------------------------------- sub-check list

def subchecks(tier, seed):
    subs = []
    thorough = tier == 'thorough'

    def score_cases():
        for K in (1, 2, 3):
            for idx in range(3 ** (K * K)):
                yield (K, idx, 3)
        if thorough:
            for idx in range(2 ** 16):
                yield (4, idx, 2)
    subs.append(Sub('score_matrices', ('K', 'idx', 'base'), score_cases, run_score,
                    bound=dict(alphabet='{0,1,2}^(KxK), K<=3' + (', {0,1}^(4x4)' if thorough else ''),
                               dtypes=['int64', 'float64'], algorithms=list(ALGS)),
                    require_flags=('greedy_ne_optimal', 'identity', 'non_identity')))

    def stack_cases():
        for K in (2, 3):
            nblocks = {2: 3, 3: 729}[K]
            for lead in ((27,), (3, 9)):
                for alg in ALGS:
                    for b in range(0, nblocks, 1 if thorough or K == 2 else 9):
                        yield (K, b, lead, alg)
    subs.append(Sub('score_matrices_stacked', ('K', 'block', 'lead', 'alg'), stack_cases,
                    run_score_stack, bound=dict(stack_shapes=[[27], [3, 9]]),
                    exhaustive=thorough))

    shapes = [(2, 3, 2), (3, 3, 1), (2, 5, 1)]
    if thorough:
        shapes += [(3, 3, 2), (4, 3, 1), (2, 7, 1)]

    def mask_cases():
        for (K, F, T) in shapes:
            for idx in range(2 ** (K * F * T)):
                yield (K, F, T, idx)
    subs.append(Sub('masks01_greedy_dhtv', ('K', 'F', 'T', 'idx'), mask_cases, run_mask,
                    bound=dict(shapes=shapes, alphabet='{0,1}', metrics=list(METRICS),
                               algorithms=list(ALGS), dhtv_plans='every (start,width,shift<=width)'),
                    require_flags=('identity', 'non_identity', 'dhtv_ref_equal')))

    def dtype_cases():
        for (K, F, T) in ((3, 3, 1), (2, 3, 2)):
            for dt in ('float32', 'float16', 'int64', 'int8'):
                for idx in range(2 ** (K * F * T)):
                    if thorough or K == 3 or idx % 4 == 1:
                        yield (K, F, T, idx, dt)
    subs.append(Sub('masks01_other_dtypes', ('K', 'F', 'T', 'idx', 'dtype'), dtype_cases,
                    run_mask_dtypes, bound=dict(dtypes=['float32', 'float16', 'int64', 'int8'],
                                                shapes=[[3, 3, 1], [2, 3, 2]]),
                    exhaustive=thorough))

    def oracle_cases():
        for (K, F, T), refs in REF_MASK_IDS.items():
            rr = refs if thorough else refs[:2]
            for rid in rr:
                for idx in range(2 ** (K * F * T)):
                    yield (K, F, T, idx, rid)
    subs.append(Sub('masks01_oracle', ('K', 'F', 'T', 'idx', 'ref'), oracle_cases, run_oracle01,
                    bound=dict(shapes=list(map(list, REF_MASK_IDS)),
                               references='vetted subset of reference masks'),
                    exhaustive=False))

    def generic_cases():
        Fs = (3, 9, 33) if not thorough else (1, 3, 5, 9, 17, 33)
        for K in range(1, 7):
            for F in Fs:
                for T in (1, 4) if not thorough else (1, 2, 4, 9):
                    for metric in METRICS:
                        for alg in ALGS:
                            if K > 4 and alg == 'optimal' and F > 9:
                                continue
                            for kind in ('generic', 'const_rows', 'zero_bin', 'tied_rows', 'huge', 'tiny'):
                                yield (K, F, T, metric, alg, kind, seed)
                            if K in (2, 3) and F <= 9:
                                for lay in A.LAYOUTS[1:]:
                                    yield (K, F, T, metric, alg, 'layout_' + lay, seed)
    subs.append(Sub('masks_generic', ('K', 'F', 'T', 'metric', 'alg', 'kind', 'seed'),
                    generic_cases, run_generic,
                    bound=dict(K='1..6', F='odd <=33', kinds=['generic', 'const', 'zero', 'tied'])))

    def applydt_cases():
        for K in (2, 4, 6):
            for F in (1, 9, 65, 99, 257):
                for dt in ('int8', 'uint8', 'int16', 'uint16', 'int32', 'int64', 'uint64'):
                    yield (K, F, 3, dt, seed)
    subs.append(Sub('apply_mapping_index_dtypes', ('K', 'F', 'T', 'dtype', 'seed'), applydt_cases, run_apply_dtypes))

    def inline_cases():
        for K in (2, 3, 4):
            for F in (3, 9):
                for T in (2, 5):
                    for wca in ((-3,), (-3, -1), -3):
                        for q in (False, True):
                            for aligner in ('greedy', 'dhtv'):
                                yield (K, F, T, wca, q, aligner, seed)
    subs.append(Sub('inline_alignment_function',
                    ('K', 'F', 'T', 'wca', 'q', 'aligner', 'seed'), inline_cases, run_inline,
                    require_flags=('non_identity',)))

    def inline_em_cases():
        for model in ('cacgmm', 'cwmm', 'cbmm'):
            for K in (2, 3):
                for F in (3, 5):
                    for aligner in ('greedy', 'dhtv'):
                        for wca in ('f', 'ft'):
                            if model == 'cbmm' and (K == 3 or F == 5) and not thorough:
                                continue
                            yield (model, K, F, 8 * K, K + 1, aligner, wca, False, seed)
                            if model == 'cacgmm':
                                yield (model, K, F, 8 * K, K + 1, aligner, wca, True, seed)
    subs.append(Sub('inline_alignment_in_em',
                    ('model', 'K', 'F', 'T', 'D', 'aligner', 'wca', 'mask', 'seed'),
                    inline_em_cases, run_inline_em, require_flags=('non_identity',)))

    def builtin_cases():
        tabs = [(2, 1, 1), (2, 1, 2), (2, 2, 1), (3, 1, 1)]
        if thorough:
            tabs.append((3, 1, 2))
        else:
            # three classes, two observations: every 27th table of the mixed grid (thorough: all of them)
            for idx in range(0, 3 ** 12, 27):
                yield (3, 1, 2, idx + (idx // 27) % 27, 'uniform', 'mixed')
        for idx in range(3 ** 8):
            yield (2, 1, 2, idx, 'uniform', 'long')
        for (K, F, T) in tabs:
            for idx in range(3 ** (2 * K * F * T)):
                for w in ('uniform', 'graded'):
                    yield (K, F, T, idx, w, 'narrow')
                    if (K, F, T) == (3, 1, 2):
                        yield (K, F, T, idx, w, 'mixed')
                    if (K, F, T) in ((2, 1, 1), (2, 1, 2), (3, 1, 1)) and (thorough or w == 'uniform'):
                        yield (K, F, T, idx, w, 'wide')
                        yield (K, F, T, idx, w, 'fine')
                        yield (K, F, T, idx, w, 'mixed')
                        if (K, F, T) != (3, 1, 1) or idx % 3 == 0:
                            yield (K, F, T, idx, w, 'neginf')
    subs.append(Sub('builtin_spatial_spectral_pa', ('K', 'F', 'T', 'idx', 'w', 'grid'),
                    builtin_cases, run_builtin,
                    bound=dict(grid=list(GRID), wide_grid=list(WIDE), tables='all stream tables of the listed shapes'),
                    require_flags=('identity', 'non_identity')))
    return subs
