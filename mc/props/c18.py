"""C18 — oracle masks satisfy their defining identities in every axis layout.

All tensors over a small complex alphabet for small (K,D,F,T) shapes x every placement
of source/sensor axes (both index signs) x keepdims; generic tensors of 1..4 axes;
Lorenz / quantile masks on generic and tie-laden inputs x axis choices x parameters."""
import itertools
import math

import numpy as np

from mc.core import Sub, ok, trivial, viol
from mc import alphabet as A
from mc import tol

LEVEL = 'exploration'
RULE = ('all tensors over {0,1,i,1+i,2} (quick: {0,1,i,2} for the 8-entry shape) of shapes (K,D,F,T) in '
        '{(2,2,1,2),(3,1,2,1),(2,1,1,2)} x every (source_axis, sensor_axis) placement x keepdims; generic '
        'tensors with 1..4 axes; Lorenz/quantile: generic + tie-laden inputs x axes x fractions x weights')
ASSUMPTIONS = ['quantile thresholds: points within 1e-9 of the reference threshold are at the discontinuity '
               'and not judged unless (n-1)*p is an exact integer']

ALPH5 = (0, 1, 1j, 1 + 1j, 2)
ALPH4 = (0, 1, 1j, 2)
ALPH3 = (0, 1, 1j)


def _mm():
    from pb_bss.extraction import mask_module
    return mask_module


def tensor(alph, shape, idx):
    n = int(np.prod(shape))
    vals = []
    for _ in range(n):
        vals.append(alph[idx % len(alph)])
        idx //= len(alph)
    return np.array(vals[::-1], dtype=complex).reshape(shape)


def place(x_c, s, d, view=False):
    """canonical (K, D, F, T) -> array with source axis at s and sensor axis at d; `view`: a transposed view
    of the canonical buffer (axes moved without copying) instead of a fresh C-contiguous array."""
    nd = x_c.ndim
    order = [None] * nd
    order[s], order[d] = 0, 1
    rest = iter(range(2, nd))
    for i in range(nd):
        if order[i] is None:
            order[i] = next(rest)
    if view:
        return np.transpose(np.array(x_c), order), order
    return np.ascontiguousarray(np.transpose(x_c, order)), order


def expected_layout(ref_c, order, keep_sensor):
    """ref_c canonical (K, 1|D, F, T) -> layout of the placed input (sensor axis kept with length 1 or dropped)."""
    out = np.transpose(ref_c, order)
    if not keep_sensor:
        out = np.squeeze(out, axis=order.index(1))
    return out


def run_small(key):
    mm = _mm()
    shape, idx, alph = tuple(key['shape']), key['idx'], {5: ALPH5, 4: ALPH4, 3: ALPH3}[key['alph']]
    x_c = tensor(alph, shape, idx)
    K, D = shape[:2]
    nd = 4
    # exact on the Gaussian-integer alphabet (|1+1j|**2 via hypot is 2.0000000000000004: spurious tie-break)
    power = (x_c.real ** 2 + x_c.imag ** 2).sum(1, keepdims=True)          # (K,1,F,T)
    tot = power.sum(0, keepdims=True)
    evals = 0
    for s in range(nd):
        for d in range(nd):
            if d == s:
                continue
            for neg in (False, True):
                # negative indices are combined with a strided view of the canonical buffer (moveaxis/transposed
                # input as a caller would pass it), positive ones with a fresh C-contiguous array
                x, order = place(x_c, s, d, view=neg)
                x.setflags(write=False)
                sa, da = (s - nd, d - nd) if neg else (s, d)
                for keep in (False, True):
                    # --- ideal binary mask
                    try:
                        m = np.asarray(mm.ideal_binary_mask(x, source_axis=sa, sensor_axis=da, keepdims=keep))
                    except Exception as e:  # noqa
                        return viol(f'ideal_binary_mask raised {e!r} (shape {x.shape}, source_axis={sa}, sensor_axis={da})')
                    want_shape = expected_layout(power, order, keep).shape
                    if m.shape != want_shape:
                        return viol(f'IBM shape {m.shape} != {want_shape} (source_axis={sa}, sensor_axis={da}, keepdims={keep})')
                    # back to canonical (K,1,F,T)
                    mk = m if keep else np.expand_dims(m, order.index(1))
                    mc = np.transpose(mk, np.argsort(order))
                    if not np.isin(mc, (0.0, 1.0)).all() or not np.all(mc.sum(0) == 1):
                        return viol('IBM is not one-hot along the source axis')
                    win = (mc * power).sum(0)
                    if not np.array_equal(win, power.max(0)):
                        return viol('IBM hot index is not a source of maximal pooled power')
                    first = (np.arange(K)[:, None, None, None] == power.argmax(0)[None]).astype(float)
                    if not np.array_equal(mc, first):
                        return viol('IBM differs between axis layouts (tie broken differently)')
                    # --- wiener like mask
                    try:
                        wm = np.asarray(mm.wiener_like_mask(x, source_axis=sa, sensor_axis=da, keepdims=keep))
                    except Exception as e:  # noqa
                        return viol(f'wiener_like_mask raised {e!r} (source_axis={sa}, sensor_axis={da})')
                    if wm.shape != want_shape:
                        return viol(f'wiener_like_mask shape {wm.shape} != {want_shape} '
                                    f'(source_axis={sa}, sensor_axis={da}, keepdims={keep})')
                    wk = wm if keep else np.expand_dims(wm, order.index(1))
                    wc = np.transpose(wk, np.argsort(order))
                    with np.errstate(all='ignore'):
                        ref = np.where(tot > 0, power / np.where(tot > 0, tot, 1), 0.0)
                    if not np.isfinite(wc).all() or (wc < 0).any() or (wc > 1 + 1e-12).any():
                        return viol('wiener_like_mask outside [0,1] / non-finite')
                    bad = tol.mismatch(wc, np.broadcast_to(ref, wc.shape), 1e-12, what='wiener_like_mask')
                    if bad:
                        return viol(bad + f' (source_axis={sa}, sensor_axis={da}, keepdims={keep})')
                    evals += 2
    # masks without sensor axis: use sensor 0 slice as (K,F,T)
    y_c = x_c[:, 0]
    for s in range(3):
        y = np.ascontiguousarray(np.moveaxis(y_c, 0, s))
        y.setflags(write=False)
        for sa in (s, s - 3):
            ssum = y_c.sum(0)
            asum = np.abs(y_c).sum(0)
            try:
                irm = np.moveaxis(np.asarray(mm.ideal_ratio_mask(y, source_axis=sa)), s, 0)
                icm = np.moveaxis(np.asarray(mm.ideal_complex_mask(y, source_axis=sa)), s, 0) \
                    if (ssum != 0).all() else None
                psm = np.moveaxis(np.asarray(mm.phase_sensitive_mask(y, source_axis=sa)), s, 0)
                iam = np.moveaxis(np.asarray(mm.ideal_amplitude_mask(y, source_axis=sa)), s, 0)
                ibm = np.moveaxis(np.asarray(mm.ideal_binary_mask(y, source_axis=sa)), s, 0)
            except Exception as e:  # noqa
                return viol(f'mask without sensor axis raised {e!r} (source_axis={sa})')
            for name, mk_ in (('ideal_ratio_mask', irm), ('phase_sensitive_mask', psm),
                              ('ideal_amplitude_mask', iam)):
                if mk_.shape != y_c.shape or not np.isfinite(mk_).all():
                    return viol(f'{name}: shape {mk_.shape} / non-finite values (eps-guarded mask)')
            with np.errstate(all='ignore'):
                ref = np.where(asum > 0, np.abs(y_c) / np.where(asum > 0, asum, 1), 0.0)
            bad = tol.mismatch(irm, ref, 1e-12, what='ideal_ratio_mask')
            if bad:
                return viol(bad)
            if (irm < 0).any() or (irm > 1 + 1e-12).any():
                return viol('ideal_ratio_mask outside [0,1]')
            nz = ssum != 0
            with np.errstate(all='ignore'):
                c_ref = np.where(nz, y_c / np.where(nz, ssum, 1), 0)
            if icm is not None:
                bad = tol.mismatch(icm * ssum, y_c, 1e-12, what='ideal_complex_mask * sum of sources')
                if bad:
                    return viol(bad)
            sel = np.broadcast_to(nz, y_c.shape)
            if np.abs(psm[sel] - c_ref.real[sel]).max(initial=0) > 1e-9:
                return viol('phase_sensitive_mask != Re(ideal complex mask)')
            if not np.array_equal(ibm.sum(0), np.ones(y_c.shape[1:])):
                return viol('IBM (no sensor axis) not one-hot')
            evals += 5
    return ok(outcome=tol.digest(power), evals=evals)


def run_generic(key):
    mm = _mm()
    shape, s, d, seed = tuple(key['shape']), key['s'], key['d'], key['seed']
    nd = len(shape)
    x = A.cnormal(A.rng(seed, 'c18g', shape), shape)
    if key['silent']:
        x[tuple(slice(0, 1) if i != s else slice(None) for i in range(nd))] = 0
    x.setflags(write=False)
    pw = np.abs(x) ** 2
    if d is not None:
        pw = pw.sum(d, keepdims=True)
    tot = pw.sum(s, keepdims=True)
    outs = []
    for keep in (False, True):
        kw = dict(source_axis=s, sensor_axis=d)
        try:
            ibm = np.asarray(mm.ideal_binary_mask(x, keepdims=keep, **kw))
            wlm = np.asarray(mm.wiener_like_mask(x, keepdims=keep, **kw))
        except Exception as e:  # noqa
            return viol(f'mask raised {e!r} ({kw}, keepdims={keep}, shape {shape})')
        exp_shape = pw.shape if (keep or d is None) else np.squeeze(pw, d).shape
        if ibm.shape != exp_shape or wlm.shape != exp_shape:
            return viol(f'mask shapes {ibm.shape}, {wlm.shape} != {exp_shape} ({kw}, keepdims={keep})')
        ib = ibm if (keep or d is None) else np.expand_dims(ibm, d)
        wl = wlm if (keep or d is None) else np.expand_dims(wlm, d)
        if not np.array_equal((ib * pw).sum(s, keepdims=True), pw.max(s, keepdims=True)) or \
                not np.all(ib.sum(s) == 1):
            return viol(f'IBM not one-hot at the maximal source ({kw})')
        with np.errstate(all='ignore'):
            ref = np.where(tot > 0, pw / np.where(tot > 0, tot, 1), 0)
        bad = tol.mismatch(wl, ref, 1e-12, what=f'wiener_like_mask ({kw})')
        if bad:
            return viol(bad)
        outs.append(tol.digest(wl))
    if d is None:
        for amp in (1e-7, 1e7):
            xs = x * amp
            ys = xs.sum(s, keepdims=True)
            try:
                psm_s = np.asarray(mm.phase_sensitive_mask(xs, source_axis=s))
                irm_s = np.asarray(mm.ideal_ratio_mask(xs, source_axis=s))
                iam_s = np.asarray(mm.ideal_amplitude_mask(xs, source_axis=s))
            except Exception as e:  # noqa
                return viol(f'mask raised {e!r} at signal level {amp}')
            nzs = np.broadcast_to(np.abs(ys) > amp * 1e-3, xs.shape)
            with np.errstate(all='ignore'):
                icm_ref = xs / np.where(ys == 0, 1, ys)
                asum = np.abs(xs).sum(s, keepdims=True)
                irm_ref = np.abs(xs) / np.where(asum == 0, 1, asum)
                iam_ref = np.abs(xs) / np.where(ys == 0, 1, np.abs(ys))
            lim = 1e-8 + 4e-18 / (amp * 1e-3)     # the documented eps = 1e-18 acts on the magnitude
            for name, got_, ref_ in (('phase_sensitive_mask', psm_s, icm_ref.real), ('ideal_ratio_mask', irm_s, irm_ref),
                                     ('ideal_amplitude_mask', iam_s, iam_ref)):
                sel = nzs if name != 'ideal_ratio_mask' else np.broadcast_to(asum > 0, xs.shape)
                dev = np.abs(got_[sel] - ref_[sel])
                if dev.size and (dev > lim * (1 + np.abs(ref_[sel]))).any():
                    return viol(f'{name} at signal level {amp}: deviates {dev.max():.3e} from its definition '
                                f'(allowed {lim:.1e} relative)')
        ssum = x.sum(s, keepdims=True)
        try:
            icm = np.asarray(mm.ideal_complex_mask(x, source_axis=s))
            psm = np.asarray(mm.phase_sensitive_mask(x, source_axis=s))
            irm = np.asarray(mm.ideal_ratio_mask(x, source_axis=s))
        except Exception as e:  # noqa
            return viol(f'complex/phase/ratio mask raised {e!r}')
        nz = np.broadcast_to(ssum != 0, x.shape)
        if np.abs((icm * ssum)[nz] - x[nz]).max(initial=0) > 1e-9 * (1 + np.abs(x).max()):
            return viol('ideal_complex_mask * mixture != source')
        if np.abs(psm[nz] - icm.real[nz]).max(initial=0) > 1e-8 * (1 + np.abs(icm[nz]).max(initial=0)):
            return viol('phase_sensitive_mask != Re(ideal complex mask)')
        asum = np.abs(x).sum(s, keepdims=True)
        with np.errstate(all='ignore'):
            ref = np.where(asum > 0, np.abs(x) / np.where(asum > 0, asum, 1), 0)
        bad = tol.mismatch(irm, ref, 1e-12, what='ideal_ratio_mask')
        if bad:
            return viol(bad)
    # single-precision input: the eps-guarded masks stay finite (silent points included) and agree with the
    # double-precision result at single-precision accuracy
    x32 = x.astype(np.complex64)
    x32.setflags(write=False)
    fns = [('wiener_like_mask', dict(source_axis=s, sensor_axis=d))]
    if d is None:
        fns += [(n_, dict(source_axis=s)) for n_ in ('ideal_ratio_mask', 'ideal_amplitude_mask', 'phase_sensitive_mask')]
    for name, kw in fns:
        try:
            a32 = np.asarray(getattr(mm, name)(x32, **kw))
            a64 = np.asarray(getattr(mm, name)(x32.astype(np.complex128), **kw))
        except Exception as e:  # noqa
            return viol(f'{name} raised {e!r} for complex64 input')
        if not np.isfinite(a32).all():
            return viol(f'{name}: non-finite values for complex64 input ({int((~np.isfinite(a32)).sum())} points, '
                        f'silent points: {bool(key["silent"])})')
        if np.abs(a32 - a64).max(initial=0) > 1e-3 * (1 + np.abs(a64).max(initial=0)):
            return viol(f'{name}: complex64 input deviates {np.abs(a32 - a64).max():.2e} from the double-precision result')
    return ok(outcome=str(outs))


def ref_percentile(v, p):
    """linear interpolation between order statistics; returns (value, exact_index?)."""
    v = sorted(float(x) for x in v)
    n = len(v)
    pos = (n - 1) * p
    lo = math.floor(pos)
    hi = min(lo + 1, n - 1)
    t = pos - lo
    return v[lo] + (v[hi] - v[lo]) * t, abs(pos - round(pos)) < 1e-12


def make_tf(seed, shape, kind):
    r = A.rng(seed, 'c18tf', shape, kind)
    if kind == 'generic':
        return A.cnormal(r, shape)
    # tie-laden: small integer magnitudes with random phases
    mag = r.integers(0, 4, size=shape).astype(float)
    return mag * np.exp(2j * np.pi * r.integers(0, 4, size=shape) / 4)


def run_quantile(key):
    mm = _mm()
    shape, kind, axis, q, weight, seed = (tuple(key['shape']), key['kind'], key['axis'], key['q'],
                                          key['weight'], key['seed'])
    axis_t = tuple(axis) if isinstance(axis, (list, tuple)) else (axis,)
    x = make_tf(seed, shape, kind)
    x.setflags(write=False)
    try:
        m = np.asarray(mm.quantile_mask(x, quantile=q, axis=axis if not isinstance(axis, list) else tuple(axis),
                                        weight=weight))
    except Exception as e:  # noqa
        return viol(f'quantile_mask raised {e!r}')
    if m.shape != x.shape:
        return viol(f'quantile_mask shape {m.shape} != {x.shape}')
    hi, lo = 0.5 + weight / 2, 0.5 - weight / 2
    mag = np.abs(x)
    nd = x.ndim
    ax = tuple(a % nd for a in axis_t)
    other = [i for i in range(nd) if i not in ax]
    mg = np.transpose(mag, other + list(ax)).reshape([mag.shape[i] for i in other] + [-1])
    mk = np.transpose(m, other + list(ax)).reshape(mg.shape)
    skipped = judged = 0
    for idx in np.ndindex(*mg.shape[:-1]):
        row = mg[idx]
        p = (1 - q) if q >= 0 else abs(q)
        thr, exact = ref_percentile(row, p)
        for j, v in enumerate(row):
            near = abs(v - thr) <= 1e-9 * (1 + abs(thr))
            if near and not (exact and q in (0.5, -0.5)):
                skipped += 1
                continue
            high = (v > thr) if q >= 0 else (v < thr)
            want = hi if high else lo
            if abs(mk[idx][j] - want) > 1e-12:
                return viol(f'quantile_mask(q={q}, axis={axis}, weight={weight}): point with magnitude {v} '
                            f'(threshold {thr}) has level {mk[idx][j]!r}, expected {want!r}')
            judged += 1
    # a tuple of quantiles gives the stack of the single-quantile masks (same axis, same weight)
    ax_arg = axis if not isinstance(axis, list) else tuple(axis)
    try:
        q2 = -q if q not in (0.5, -0.5) else (0.25 if q > 0 else -0.25)
        both = np.asarray(mm.quantile_mask(x, quantile=(q, q2), axis=ax_arg, weight=weight))
        second = np.asarray(mm.quantile_mask(x, quantile=q2, axis=ax_arg, weight=weight))
    except Exception as e:  # noqa
        return viol(f'quantile_mask with a tuple of quantiles raised {e!r}')
    if both.shape != (2,) + x.shape or not np.array_equal(both[0], m) or not np.array_equal(both[1], second):
        return viol(f'quantile_mask(quantile=({q}, {q2}), axis={axis}) is not the stack of the two single-quantile '
                    f'masks (shape {both.shape})')
    return ok(outcome=tol.digest(m), flags=['skipped'] if skipped else [], evals=3)


def run_lorenz(key):
    mm = _mm()
    shape, kind, axis, frac, weight, sensor, seed = (tuple(key['shape']), key['kind'], key['axis'], key['frac'],
                                                     key['weight'], key['sensor'], key['seed'])
    axis_t = tuple(axis) if isinstance(axis, (list, tuple)) else (axis,)
    x = make_tf(seed, shape, kind)
    x.setflags(write=False)
    nd = x.ndim
    power = np.abs(x) ** 2
    if kind != 'generic':
        power = np.round(power)          # integer powers: exact arithmetic on both sides
    if sensor is not None:
        power = power.sum(sensor, keepdims=True)
    ax = tuple(a % nd for a in axis_t)
    other = [i for i in range(nd) if i not in ax]
    pg = np.transpose(power, other + list(ax)).reshape([power.shape[i] for i in other] + [-1])
    # domain of the property: no single point carries the Lorenz fraction
    for idx in np.ndindex(*pg.shape[:-1]):
        row = pg[idx]
        if row.sum() <= 0 or row.max() / row.sum() >= frac or row.size < 8:
            return trivial('outside the stated domain (a point carries the Lorenz fraction / < 8 points)')
    for keep in ((False, True) if sensor is not None else (False,)):
        try:
            m = np.asarray(mm.lorenz_mask(x, sensor_axis=sensor, axis=tuple(axis_t) if len(axis_t) > 1 else axis_t[0],
                                          lorenz_fraction=frac, weight=weight, keepdims=keep))
        except Exception as e:  # noqa
            return viol(f'lorenz_mask raised {e!r}')
        exp_shape = power.shape if (keep or sensor is None) else np.squeeze(power, sensor).shape
        if m.shape != exp_shape:
            return viol(f'lorenz_mask shape {m.shape} != {exp_shape} (keepdims={keep})')
        mfull = m if (keep or sensor is None) else np.expand_dims(m, sensor)
        mk = np.transpose(mfull, other + list(ax)).reshape(pg.shape)
        hi, lo = 0.5 + weight / 2, 0.5 - weight / 2
        for idx in np.ndindex(*pg.shape[:-1]):
            row = [float(v) for v in pg[idx]]
            srt = sorted(row, reverse=True)
            tot = sum(srt)
            acc = 0.0
            kept = []
            cum = np.cumsum(np.array(srt)) / np.sum(np.array(srt))
            for v, c in zip(srt, cum):
                if c < frac:
                    kept.append(v)
            thr = min(kept)
            if kind == 'generic' and any(abs(c - frac) < 1e-12 for c in cum):
                return trivial('cumulative share within rounding of the fraction')
            for j, v in enumerate(row):
                want = hi if v > thr else lo
                if abs(mk[idx][j] - want) > 1e-12:
                    return viol(f'lorenz_mask(fraction={frac}, axis={axis}, weight={weight}): point with power '
                                f'{v} (threshold {thr}) has level {mk[idx][j]!r}, expected {want!r}')
    return ok(outcome=tol.digest(m))


def subchecks(tier, seed):
    thorough = tier == 'thorough'
    subs = []

    def small_cases():
        specs = [((2, 1, 1, 2), 5), ((3, 1, 2, 1), 5 if thorough else 4), ((2, 2, 1, 2), 5 if thorough else 3)]
        if thorough:
            specs.append(((3, 2, 1, 2), 3))
        for shape, a in specs:
            n = int(np.prod(shape))
            for idx in range(a ** n):
                yield (shape, idx, a)
    subs.append(Sub('small_alphabet_tensors', ('shape', 'idx', 'alph'), small_cases, run_small,
                    bound=dict(alphabet='{0,1,i,1+i,2}', shapes='(K,D,F,T) in {(2,1,1,2),(3,1,2,1),(2,2,1,2)}'),
                    exhaustive=thorough))

    def generic_cases():
        for nd in (1, 2, 3, 4):
            for shape in itertools.product((1, 2, 3, 6), repeat=nd):
                if int(np.prod(shape)) > 200 or (not thorough and sum(shape) % 2 and nd == 4):
                    continue
                for s in range(-nd, nd):
                    for d in [None] + [a for a in range(-nd, nd) if a % nd != s % nd]:
                        if not thorough and nd >= 3 and d is not None and (s < 0) != (d < 0):
                            continue
                        for silent in (False, True):
                            if silent and shape[s] == 1:
                                continue
                            yield (shape, s, d, silent, seed)
    subs.append(Sub('generic_tensors', ('shape', 's', 'd', 'silent', 'seed'), generic_cases, run_generic))

    def q_cases():
        for shape in ((9,), (3, 9), (2, 8, 5), (2, 2, 4, 9)):
            nd = len(shape)
            axes = [-1, 0] + ([-2, (-2, -1)] if nd >= 2 else []) + ([(0, -1)] if nd >= 3 else [])
            for kind in ('generic', 'ties'):
                for axis in axes:
                    a_t = axis if isinstance(axis, tuple) else (axis,)
                    if int(np.prod([shape[a] for a in a_t])) < 8:
                        continue
                    for q in (0.1, 0.5, 0.9, -0.1, -0.5, -0.9):
                        for weight in (0.0, 0.5, 0.999):
                            yield (shape, kind, axis, q, weight, seed)
    subs.append(Sub('quantile_mask', ('shape', 'kind', 'axis', 'q', 'weight', 'seed'), q_cases, run_quantile))

    def l_cases():
        for shape in ((8,), (3, 9), (9, 3), (2, 8, 5), (2, 3, 4, 9)):
            nd = len(shape)
            axes = [-1] + ([(-2, -1), -2, 0] if nd >= 2 else []) + ([(0, -1)] if nd >= 3 else [])
            for kind in ('generic', 'ties', 'ties2'):
                for axis in axes:
                    a_t = axis if isinstance(axis, tuple) else (axis,)
                    if int(np.prod([shape[a] for a in a_t])) < 8:
                        continue
                    for frac in (0.5, 0.9, 0.98, 0.6):
                        for weight in (0.0, 0.5, 0.999):
                            sensors = [None] + ([0] if nd >= 3 and 0 not in [a % nd for a in a_t] else [])
                            for sensor in sensors:
                                yield (shape, kind, axis, frac, weight, sensor, seed)
    subs.append(Sub('lorenz_mask', ('shape', 'kind', 'axis', 'frac', 'weight', 'sensor', 'seed'), l_cases,
                    run_lorenz))
    return subs
