"""Reference EM (DESIGN A.3-A.5): boring loops, reference densities (mpmath), reference
estimators.  A reference model is a dict:
  pi      full weights broadcast to the affiliation shape (..., K, N)
  cacg    dict(U (...,K,D,D), lam (...,K,D))              cacgmm / integration models
  watson  dict(mode (...,K,D), kappa (...,K))
  bingham dict(U, lam)
  gauss   dict(mean (...,K,D), cov, type)
  vmf     dict(mean (...,K,D), kappa (...,K))
"""
import numpy as np

from mc.refmodels import densities as RD
from mc.refmodels import mixtures as M
from mc.refmodels import alignment as RA

TINY = np.finfo(np.float64).tiny


def split(model, data):
    """-> (spatial observation or None, secondary observation or None)"""
    if model in M.INTEGRATION:
        return data[0], data[1]
    return data, None


def from_impl(model, m, aff_shape):
    """Reference representation of an implementation model (its own parameters)."""
    ref = dict(pi=np.array(M.weight_full(model, m, aff_shape), dtype=float))
    if model in ('cacgmm', 'gcacgmm', 'vmfcacgmm'):
        ref['cacg'] = dict(U=np.asarray(m.cacg.covariance_eigenvectors),
                           lam=np.asarray(m.cacg.covariance_eigenvalues))
    if model == 'cwmm':
        ref['watson'] = dict(mode=np.asarray(m.complex_watson.mode),
                             kappa=np.asarray(m.complex_watson.concentration))
    if model == 'cbmm':
        ref['bingham'] = dict(U=np.asarray(m.complex_bingham.covariance_eigenvectors),
                              lam=np.asarray(m.complex_bingham.covariance_eigenvalues))
    if model in ('gmm', 'gcacgmm'):
        g = m.gaussian
        t = {'Gaussian': 'full', 'DiagonalGaussian': 'diagonal',
             'SphericalGaussian': 'spherical'}[type(g).__name__]
        ref['gauss'] = dict(mean=np.asarray(g.mean), cov=np.asarray(g.covariance), type=t)
    if model in ('vmfmm', 'vmfcacgmm'):
        ref['vmf'] = dict(mean=np.asarray(m.vmf.mean), kappa=np.asarray(m.vmf.concentration))
    if model in M.INTEGRATION:
        ref['sw'] = (float(m.spatial_weight), float(m.spectral_weight))
    return ref


def _gauss_lp(y, g, k):
    if g['type'] == 'full':
        return RD.gaussian_logpdf(y, g['mean'][k], g['cov'][k])
    if g['type'] == 'diagonal':
        return RD.diagonal_gaussian_logpdf(y, g['mean'][k], g['cov'][k])
    return RD.spherical_gaussian_logpdf(y, g['mean'][k], g['cov'][k])


def logpdf_table(model, ref, data):
    """(..., K, N) reference log-density table and the cACG quadratic forms (or None)."""
    y, emb = split(model, data)
    shape = ref['pi'].shape
    K, N = shape[-2:]
    lead = shape[:-2]
    out = np.zeros(shape)
    q = np.zeros(shape) if 'cacg' in ref else None
    for idx in np.ndindex(*lead):
        for k in range(K):
            ik = idx + (k,)
            if model == 'cacgmm':
                out[ik], q[ik] = RD.cacg_logpdf(y[idx], ref['cacg']['U'][ik], ref['cacg']['lam'][ik])
            elif model == 'cwmm':
                out[ik] = RD.watson_logpdf(M.unit_rows(y[idx]), ref['watson']['mode'][ik],
                                           float(ref['watson']['kappa'][ik]))
            elif model == 'cbmm':
                out[ik] = RD.bingham_logpdf(M.unit_rows(y[idx]), ref['bingham']['U'][ik],
                                            ref['bingham']['lam'][ik])
            elif model == 'gmm':
                out[ik] = _gauss_lp(y[idx], {**ref['gauss'],
                                             'mean': ref['gauss']['mean'][idx],
                                             'cov': ref['gauss']['cov'][idx]}, k)
            elif model == 'vmfmm':
                out[ik] = RD.vmf_logpdf(y[idx], ref['vmf']['mean'][ik], float(ref['vmf']['kappa'][ik]))
            elif model in M.INTEGRATION:
                a, q[ik] = RD.cacg_logpdf(y[idx], ref['cacg']['U'][ik], ref['cacg']['lam'][ik])
                if model == 'gcacgmm':
                    b = _gauss_lp(emb[idx], ref['gauss'], k)
                else:
                    b = RD.vmf_logpdf(emb[idx], ref['vmf']['mean'][k], float(ref['vmf']['kappa'][k]))
                out[ik] = ref['sw'][0] * a + ref['sw'][1] * b
    return out, q


def e_step(model, ref, data, eps=0.0, mask=None):
    L, q = logpdf_table(model, ref, data)
    return M.bayes(L, ref['pi'], mask=mask, eps=eps), q, L


def e_step_builtin(model, ref, data, eps=0.0):
    """E-step of an integration model with its built-in spatial/spectral alignment: per frequency the
    arrangement of the spatial classes that maximises sum_kn g_kn L_kn (g = softmax of L over the classes,
    without weights) is chosen, the posterior is Bayes on the re-arranged table.  Returns
    (gamma, q, ambiguous): ambiguous if two arrangements are closer than 1e-9 in some frequency."""
    import itertools
    import math
    sw = ref['sw']
    a, q = logpdf_table(model, dict(ref, sw=(1.0, 0.0)), data)
    b, _ = logpdf_table(model, dict(ref, sw=(0.0, 1.0)), data)
    sp, se = sw[0] * a, sw[1] * b
    F, K, N = sp.shape
    gamma = np.zeros((F, K, N))
    amb = False
    for f in range(F):
        crit = []
        for perm in itertools.permutations(range(K)):
            L = sp[f][list(perm)] + se[f]
            tot = 0.0
            for n in range(N):
                col = [float(L[k, n]) for k in range(K)]
                mx = max(col)
                e = [math.exp(c - mx) for c in col]
                z = sum(e)
                tot += sum(e[k] / z * col[k] for k in range(K))
            crit.append((tot, perm))
        best = max(c for c, _ in crit)
        near = [p_ for c, p_ in crit if c >= best - 1e-9 * (1 + abs(best))]
        if len(near) > 1:
            amb = True
        perm = next(p_ for c, p_ in crit if c == best)
        gamma[f] = M.bayes((sp[f][list(perm)] + se[f])[None], ref['pi'][f][None], eps=eps)[0]
    return gamma, q, amb


def apply_aligner(gamma, q, aligner):
    """aligner: None | ('greedy', metric) | ('dhtv', F, start, width, shift, main, sub, metric, alg).
    gamma, q: (F, K, T).  Returns (gamma, q, ambiguous)."""
    if aligner is None:
        return gamma, q, False
    g = np.transpose(gamma, (1, 0, 2))
    if aligner[0] == 'greedy':
        mapping, amb = RA.greedy_chain(g, aligner[1])
    else:
        _, F, start, width, shift, main, sub, metric, alg = aligner
        mapping, _, amb = RA.dhtv(g, F, start, width, shift, main, sub, metric, alg)
    g2 = RA.apply_mapping_loop(g, mapping)
    out_q = None
    if q is not None:
        out_q = np.transpose(RA.apply_mapping_loop(np.transpose(q, (1, 0, 2)), mapping), (1, 0, 2))
    return np.transpose(g2, (1, 0, 2)), out_q, amb


def m_step(model, data, gamma, q, saliency=None, wca=(-1,), hermitize=True, norm='eigenvalue',
           floor=1e-10, cov_type=None, kmin=1e-10, kmax=500.0, watson_kmax=500.0, sw=(1.0, 1.0)):
    """Reference M-step.  Returns a reference model (Bingham: only the scatter is returned
    under key 'bingham_scatter'; its eigenvalue equation is checked as a predicate)."""
    y, emb = split(model, data)
    gamma = np.asarray(gamma, float)
    shape = gamma.shape
    K, N = shape[-2:]
    lead = shape[:-2]
    s = np.ones(lead + (N,)) if saliency is None else np.broadcast_to(np.asarray(saliency, float), lead + (N,))
    ref = dict(pi=np.array(M.ref_weights(gamma, saliency, wca)))
    D = y.shape[-1]
    z = M.unit_rows(y) if model in M.COMPLEX_OBS else y
    if model in ('cacgmm', 'gcacgmm', 'vmfcacgmm'):
        U = np.zeros(lead + (K, D, D), complex)
        lam = np.zeros(lead + (K, D))
        for idx in np.ndindex(*lead):
            for k in range(K):
                c = gamma[idx + (k,)] * s[idx]
                _, lam[idx + (k,)], U[idx + (k,)] = M.m_cacg(z[idx], c, q[idx + (k,)], hermitize, norm, floor)
        ref['cacg'] = dict(U=U, lam=lam)
    if model == 'cwmm':
        mode = np.zeros(lead + (K, D), complex)
        kap = np.zeros(lead + (K,))
        lmax = np.zeros(lead + (K,))
        gap = np.zeros(lead + (K,))
        for idx in np.ndindex(*lead):
            for k in range(K):
                c = gamma[idx + (k,)] * s[idx]
                Rm = M.scatter(z[idx], c)
                w, V = np.linalg.eigh((Rm + Rm.conj().T) / 2)
                mode[idx + (k,)] = V[:, -1]
                lmax[idx + (k,)] = w[-1]
                gap[idx + (k,)] = w[-1] - w[-2]
                kap[idx + (k,)] = M.watson_kappa_from_eig(float(w[-1]), D, watson_kmax)
        ref['watson'] = dict(mode=mode, kappa=kap, lam_max=lmax, gap=gap, kmax=watson_kmax)
    if model == 'cbmm':
        Rm = np.zeros(lead + (K, D, D), complex)
        for idx in np.ndindex(*lead):
            for k in range(K):
                Rm[idx + (k,)] = M.scatter(z[idx], gamma[idx + (k,)] * s[idx])
        ref['bingham_scatter'] = Rm
    if model == 'gmm':
        t = cov_type or 'full'
        mean = np.zeros(lead + (K, D))
        cov = np.zeros(lead + (K,) + {'full': (D, D), 'diagonal': (D,), 'spherical': ()}[t])
        for idx in np.ndindex(*lead):
            for k in range(K):
                mean[idx + (k,)], cov[idx + (k,)] = M.m_gaussian(y[idx], gamma[idx + (k,)] * s[idx], t)
        ref['gauss'] = dict(mean=mean, cov=cov, type=t)
    if model == 'vmfmm':
        mean = np.zeros(lead + (K, D))
        kap = np.zeros(lead + (K,))
        rbar = np.zeros(lead + (K,))
        for idx in np.ndindex(*lead):
            for k in range(K):
                mean[idx + (k,)], kap[idx + (k,)], rbar[idx + (k,)] = \
                    M.m_vmf(y[idx], gamma[idx + (k,)] * s[idx], kmin, kmax)
        ref['vmf'] = dict(mean=mean, kappa=kap, rbar=rbar, kmin=kmin, kmax=kmax)
    if model in M.INTEGRATION:
        F, T, E = emb.shape
        flat = emb.reshape(F * T, E)
        ref['sw'] = tuple(sw)
        if model == 'gcacgmm':
            t = cov_type or 'spherical'
            mean = np.zeros((K, E))
            cov = np.zeros((K,) + {'full': (E, E), 'diagonal': (E,), 'spherical': ()}[t])
            for k in range(K):
                c = (gamma[:, k, :] * s).reshape(F * T)
                mean[k], cov[k] = M.m_gaussian(flat, c, t)
            ref['gauss'] = dict(mean=mean, cov=cov, type=t)
        else:
            mean = np.zeros((K, E))
            kap = np.zeros(K)
            rbar = np.zeros(K)
            for k in range(K):
                c = (gamma[:, k, :] * s).reshape(F * T)
                mean[k], kap[k], rbar[k] = M.m_vmf(flat, c, kmin, kmax)
            ref['vmf'] = dict(mean=mean, kappa=kap, rbar=rbar, kmin=kmin, kmax=kmax)
    return ref


def compare(model, impl_ref, ref, rtol, D, check_bingham=None, what='model', weight_atol=0.0):
    """impl_ref = from_impl(...), ref = m_step(...).  Text of the first mismatch or None.
    Eigen-objects are compared in canonical form; Watson concentration by residual."""
    from mc import tol
    bad = tol.mismatch(impl_ref['pi'], ref['pi'], rtol + weight_atol, what=f'{what}: mixture weights')
    if bad:
        return bad
    if 'cacg' in ref:
        a = M.canon_psd(impl_ref['cacg']['U'], impl_ref['cacg']['lam'])
        b = M.canon_psd(ref['cacg']['U'], ref['cacg']['lam'])
        bad = tol.mismatch(a, b, rtol, what=f'{what}: cACG covariance') or \
            tol.mismatch(np.sort(impl_ref['cacg']['lam'], -1), np.sort(ref['cacg']['lam'], -1), rtol,
                         what=f'{what}: cACG eigenvalues')
        if bad:
            return bad
    if 'watson' in ref:
        w = ref['watson']
        a = M.canon_mode(impl_ref['watson']['mode'])
        b = M.canon_mode(w['mode'])
        regular = w['gap'] >= 1e-3
        if regular.any():
            bad = tol.mismatch(a[regular], b[regular], max(rtol, 1e-8) * 1e2,
                               what=f'{what}: Watson mode (projector)')
            if bad:
                return bad
        kimpl = np.asarray(impl_ref['watson']['kappa'], float)
        if kimpl.shape != w['kappa'].shape:
            return f'{what}: Watson concentration shape {kimpl.shape} != {w["kappa"].shape}'
        kmax = float(w['kmax'])
        lo, hi = RD.watson_ratio(1e-3, D), RD.watson_ratio(kmax, D)
        for idx in np.ndindex(*kimpl.shape):
            k, lm = float(kimpl[idx]), float(w['lam_max'][idx])
            if not np.isfinite(k) or k < 0 or k > kmax * (1 + 1e-12):
                return f'{what}: Watson concentration {k!r} outside [0, {kmax}]'
            res = abs(RD.watson_ratio(k, D) - lm) if k > 0 else None
            if lm <= lo + 1e-9:
                good = k <= 1e-3 * (1 + 1e-6) or (res is not None and res <= 1e-6)
            elif lm >= hi - 1e-9:
                good = abs(k - kmax) <= 1e-6 * kmax or res <= 1e-6
            else:
                good = res is not None and res <= 1e-6
            if not good:
                return (f'{what}: Watson concentration {k} does not solve rho(kappa) = {lm} '
                        f'(reference {float(w["kappa"][idx])})')
    if 'gauss' in ref:
        bad = tol.mismatch(impl_ref['gauss']['mean'], ref['gauss']['mean'], rtol, what=f'{what}: Gaussian mean') or \
            tol.mismatch(impl_ref['gauss']['cov'], ref['gauss']['cov'], rtol, what=f'{what}: Gaussian covariance')
        if bad:
            return bad
        if impl_ref['gauss']['type'] != ref['gauss']['type']:
            return f'{what}: covariance type {impl_ref["gauss"]["type"]} != {ref["gauss"]["type"]}'
    if 'vmf' in ref:
        v = ref['vmf']
        bad = tol.mismatch(impl_ref['vmf']['mean'], v['mean'], rtol * 10, what=f'{what}: vMF mean')
        if bad:
            return bad
        # kappa = f(rbar) is ill-conditioned near rbar = 1: the implementation's value must lie
        # between the clipped Banerjee values of rbar*(1 -/+ 1e-12) (rbar >= 1 means kappa_max)
        ki, kr = np.asarray(impl_ref['vmf']['kappa'], float), v['kappa']
        if ki.shape != kr.shape:
            return f'{what}: vMF concentration shape {ki.shape} != {kr.shape}'
        Dv = impl_ref['vmf']['mean'].shape[-1]
        kmin_, kmax_ = float(v.get('kmin', 1e-10)), float(v.get('kmax', 500.0))

        def banerjee(r):
            if r >= 1 - 1e-15:
                return kmax_
            return min(max((r * Dv - r ** 3) / (1 - r ** 2), kmin_), kmax_)
        for idx in np.ndindex(*ki.shape):
            r = float(v['rbar'][idx])
            lo, hi = banerjee(r * (1 - 1e-12)), banerjee(min(r * (1 + 1e-12), 1.0))
            lo, hi = min(lo, hi), max(lo, hi)
            k = float(ki[idx])
            if not (lo - rtol * (1 + abs(lo)) <= k <= hi + rtol * (1 + abs(hi))):
                return (f'{what}: vMF concentration {k!r} outside [{lo!r}, {hi!r}] expected for '
                        f'rbar = {r!r} (reference {float(kr[idx])!r})')
    if 'bingham_scatter' in ref:
        Rm = ref['bingham_scatter']
        U, lam = impl_ref['bingham']['U'], impl_ref['bingham']['lam']
        for idx in np.ndindex(*lam.shape[:-1]):
            S = (Rm[idx] + Rm[idx].conj().T) / 2
            w, V = np.linalg.eigh(S)
            u = U[idx]
            if np.abs(u.conj().T @ u - np.eye(D)).max() > 1e-8:
                return f'{what}: Bingham eigenvectors not unitary at {idx}'
            # eigenvectors diagonalise the scatter: U^H S U = diag(scatter eigenvalues)
            d = u.conj().T @ S @ u
            sc = np.real(np.diag(d))
            if np.abs(d - np.diag(np.diag(d))).max() > 1e-8 * (1 + 1e2 * (np.min(np.diff(np.sort(sc))) < 1e-3)):
                return f'{what}: Bingham eigenvectors do not diagonalise the scatter at {idx}'
            l = lam[idx]
            if not np.isfinite(l).all() or l.max() > 1e-12 or abs(l.max()) > 1e-9:
                return f'{what}: Bingham eigenvalues {l} (maximum must be 0)'
            if check_bingham is not None:
                bad = check_bingham(l, sc, idx)
                if bad:
                    return f'{what}: {bad}'
    return None
