"""Loop-level reference transcription of the permutation aligners (DESIGN A.7).
Shares no helper with pb_bss.  All functions report `ambiguous=True` when a
decision was taken at a near-tie (|gap| <= 1e-9 but not exactly 0): then the
reference cannot predict the implementation's rounding and equality is skipped.
Exact ties are resolved by the documented order (first in row-major / first
permutation in lexicographic order)."""
import itertools
import math

import numpy as np

NEAR = 1e-9


def normalise_rows(m):
    """m (..., T) -> rows scaled to unit norm, zero rows stay zero."""
    m = np.array(m, dtype=float)
    out = np.zeros_like(m)
    for idx in np.ndindex(*m.shape[:-1]):
        n = math.sqrt(float(np.sum(m[idx] * m[idx])))
        out[idx] = m[idx] / n if n > 0 else 0.0
    return out


def score_matrix(est, ref, metric):
    """est, ref: (K, T).  S[k_ref, k_est]."""
    K = est.shape[0]
    if metric == 'cos':
        est, ref = normalise_rows(est), normalise_rows(ref)
    S = np.zeros((K, K))
    for i in range(K):
        for j in range(K):
            if metric in ('cos', 'multiply'):
                S[i, j] = float(np.sum(est[j] * ref[i]))
            elif metric == 'euclidean':
                S[i, j] = -math.sqrt(float(np.sum((est[j] - ref[i]) ** 2)))
            else:
                raise ValueError(metric)
    return S


class Amb:
    def __init__(self):
        self.ambiguous = False   # a near (inexact) tie was met
        self.tie = False         # an exact tie was met (resolved by the documented order)


def assign_greedy(S, amb=None):
    S = np.array(S, dtype=float)
    K = S.shape[0]
    rows, cols = list(range(K)), list(range(K))
    mapping = [None] * K
    for _ in range(K):
        best = None
        vals = []
        for i in rows:
            for j in cols:
                vals.append(S[i, j])
                if best is None or S[i, j] > S[best]:
                    best = (i, j)
        if amb is not None:
            v = S[best]
            for x in vals:
                if x != v and abs(x - v) <= NEAR * (1 + abs(v)):
                    amb.ambiguous = True
            if sum(1 for x in vals if x == v) > 1:
                amb.tie = True
        i, j = best
        mapping[i] = j
        rows.remove(i)
        cols.remove(j)
    return np.array(mapping)


def assign_optimal(S, amb=None):
    S = np.array(S, dtype=float)
    K = S.shape[0]
    best, best_p = None, None
    totals = []
    for p in itertools.permutations(range(K)):
        t = 0
        for i in range(K):
            t = t + S[i, p[i]]
        totals.append(t)
        if best is None or t > best:
            best, best_p = t, p
    if amb is not None:
        for t in totals:
            if t != best and abs(t - best) <= NEAR * (1 + abs(best)):
                amb.ambiguous = True
        if sum(1 for t in totals if t == best) > 1:
            amb.tie = True
    return np.array(best_p)


def assign(S, algorithm, amb=None):
    return assign_greedy(S, amb) if algorithm == 'greedy' else assign_optimal(S, amb)


def brute_force_best_total(S):
    S = np.array(S, dtype=float)
    K = S.shape[0]
    return max(sum(S[i, p[i]] for i in range(K))
               for p in itertools.permutations(range(K)))


def is_permutation_columns(mapping, K):
    mapping = np.asarray(mapping)
    if mapping.ndim < 1 or mapping.shape[0] != K:
        return False
    flat = mapping.reshape(K, -1)
    want = list(range(K))
    return all(sorted(flat[:, f].tolist()) == want for f in range(flat.shape[1]))


def apply_mapping_loop(mask, mapping):
    mask = np.asarray(mask)
    out = np.empty_like(mask)
    K, F = mapping.shape
    for f in range(F):
        for k in range(K):
            out[k, f] = mask[mapping[k, f], f]
    return out


def plan(F, start, width, shift, main_it, sub_it):
    """Reference DHTV alignment plan: list of [iterations, lo, hi]."""
    if start + width > F:
        raise ValueError('start+width > F')
    higher = []
    s = start + shift
    while s < F - width:
        higher.append([sub_it, s, s + width])
        s += shift
    lower = []
    s = start - shift
    while s > 0:
        lower.append([sub_it, s, s + width])
        s -= shift
    first = [main_it, start, start + width]
    if higher:
        higher[-1][2] = F
    else:
        first[2] = F
    if lower:
        lower[-1][1] = 0
    else:
        first[1] = 0
    rest = []
    for i in range(max(len(higher), len(lower))):
        if i < len(higher):
            rest.append(higher[i])
        if i < len(lower):
            rest.append(lower[i])
    return [first] + rest


def dhtv(mask, F, start, width, shift, main_it, sub_it, metric, algorithm, strict=False):
    """Reference DHTV aligner.  Returns (mapping (K,F), converged features, ambiguous)."""
    mask = np.array(mask, dtype=float)
    K = mask.shape[0]
    amb = Amb()
    feats = normalise_rows(mask) if metric == 'cos' else mask.copy()
    mapping = np.repeat(np.arange(K)[:, None], F, axis=1)
    inner = 'multiply' if metric == 'cos' else metric
    for its, lo, hi in plan(F, start, width, shift, main_it, sub_it):
        for _ in range(its):
            cen = np.zeros((K, mask.shape[2]))
            for k in range(K):
                acc = np.zeros(mask.shape[2])
                for f in range(lo, hi):
                    acc = acc + feats[k, f]
                cen[k] = acc / (hi - lo)
            if metric == 'cos':
                cen = normalise_rows(cen)
            changed = False
            for f in range(lo, hi):
                S = score_matrix(feats[:, f], cen, inner)
                p = assign(S, algorithm, amb)
                if list(p) != list(range(K)):
                    changed = True
                    feats[:, f] = feats[p, f]
                    mapping[:, f] = mapping[p, f]
            if not changed:
                break
    return mapping, feats, (amb.ambiguous or (amb.tie and strict))


def greedy_chain(mask, metric, strict=False):
    """Reference adjacent-bin aligner (always the greedy assignment).
    Returns (mapping, ambiguous)."""
    mask = np.array(mask, dtype=float)
    K, F = mask.shape[:2]
    amb = Amb()
    mapping = np.zeros((K, F), dtype=int)
    mapping[:, 0] = np.arange(K)
    for f in range(1, F):
        S = score_matrix(mask[:, f], mask[:, f - 1], metric)
        local = assign_greedy(S, amb)
        mapping[:, f] = local[mapping[:, f - 1]]
    return mapping, (amb.ambiguous or (amb.tie and strict))


def oracle(mask, reference, metric, algorithm, strict=False):
    mask = np.array(mask, dtype=float)
    reference = np.array(reference, dtype=float)
    K, F = mask.shape[:2]
    amb = Amb()
    mapping = np.zeros((K, F), dtype=int)
    for f in range(F):
        S = score_matrix(mask[:, f], reference[:, f], metric)
        mapping[:, f] = assign(S, algorithm, amb)
    return mapping, (amb.ambiguous or (amb.tie and strict))
