"""Reference log-densities (DESIGN A.2), evaluated one parameter set at a time with
explicit loops; special functions through mpmath.  No helper of pb_bss is used."""
import functools
import math

import mpmath as mp
import numpy as np

mp.mp.dps = 40


def unit(v):
    v = np.asarray(v)
    n = math.sqrt(float(np.sum(np.abs(v) ** 2)))
    return v / n if n > 0 else v * 0


# ---------------------------------------------------------------- Gaussians

def gaussian_logpdf(y, mean, cov):
    """y (N,D) real, cov (D,D) symmetric positive definite."""
    y = np.asarray(y, dtype=float)
    mean = np.asarray(mean, dtype=float)
    cov = np.asarray(cov, dtype=float)
    D = mean.shape[-1]
    sign, logdet = np.linalg.slogdet(cov)
    out = np.empty(y.shape[0])
    for n in range(y.shape[0]):
        d = y[n] - mean
        out[n] = -0.5 * D * math.log(2 * math.pi) - 0.5 * logdet - 0.5 * float(d @ np.linalg.solve(cov, d))
    return out


def diagonal_gaussian_logpdf(y, mean, var):
    return gaussian_logpdf(y, mean, np.diag(np.asarray(var, dtype=float)))


def spherical_gaussian_logpdf(y, mean, var):
    D = np.asarray(mean).shape[-1]
    return gaussian_logpdf(y, mean, float(var) * np.eye(D))


def complex_gaussian_logpdf(y, cov):
    y = np.asarray(y, dtype=complex)
    cov = np.asarray(cov, dtype=complex)
    D = cov.shape[-1]
    sign, logdet = np.linalg.slogdet(cov)
    out = np.empty(y.shape[0])
    for n in range(y.shape[0]):
        out[n] = -D * math.log(math.pi) - logdet - float(np.real(np.conj(y[n]) @ np.linalg.solve(cov, y[n])))
    return out


# ---------------------------------------------------------------- vMF

@functools.lru_cache(maxsize=4096)
def vmf_log_norm(kappa, D):
    """log of the normaliser c_D(kappa)^-1 = (2 pi)^(D/2) I_{D/2-1}(k) / k^(D/2-1)."""
    k = mp.mpf(kappa)
    nu = mp.mpf(D) / 2 - 1
    val = (mp.mpf(D) / 2) * mp.log(2 * mp.pi) + mp.log(mp.besseli(nu, k)) - nu * mp.log(k)
    return float(val)


def vmf_logpdf(y, mean, kappa):
    """y (N,D) real (normalised here), mean unit vector."""
    y = np.asarray(y, dtype=float)
    D = y.shape[-1]
    ln = vmf_log_norm(float(kappa), D)
    out = np.empty(y.shape[0])
    for n in range(y.shape[0]):
        out[n] = float(kappa) * float(np.dot(unit(y[n]), mean)) - ln
    return out


# ---------------------------------------------------------------- complex Watson

@functools.lru_cache(maxsize=4096)
def watson_log_norm(kappa, D):
    k = mp.mpf(kappa)
    val = mp.log(mp.hyp1f1(1, D, k)) + mp.log(2) + D * mp.log(mp.pi) - mp.log(mp.factorial(D - 1))
    return float(val)


def watson_logpdf(z, mode, kappa):
    """z (N,D) complex unit vectors (documented precondition)."""
    z = np.asarray(z, dtype=complex)
    D = z.shape[-1]
    ln = watson_log_norm(float(kappa), D)
    out = np.empty(z.shape[0])
    for n in range(z.shape[0]):
        out[n] = float(kappa) * abs(np.vdot(mode, z[n])) ** 2 - ln
    return out


@functools.lru_cache(maxsize=4096)
def watson_ratio(kappa, D):
    """rho(kappa) = 1F1(2;D+1;k) / (D 1F1(1;D;k)): top eigenvalue of the scatter."""
    k = mp.mpf(kappa)
    return float(mp.hyp1f1(2, D + 1, k) / (D * mp.hyp1f1(1, D, k)))


# ---------------------------------------------------------------- complex Bingham

def bingham_log_norm(lam, gap=1e-8):
    """log c(lambda), c = 2 pi^D sum_j exp(l_j) / prod_{i != j} (l_j - l_i); eigenvalues
    closer than `gap` are spread to that gap (as documented); 60-digit evaluation."""
    with mp.workdps(60):
        l = sorted(mp.mpf(float(x)) for x in lam)
        for i in range(1, len(l)):
            if l[i] - l[i - 1] < gap:
                l[i] = l[i - 1] + mp.mpf(gap)
        D = len(l)
        tot = mp.mpf(0)
        for j in range(D):
            den = mp.mpf(1)
            for i in range(D):
                if i != j:
                    den *= (l[j] - l[i])
            tot += mp.exp(l[j]) / den
        return float(mp.log(2 * mp.pi ** D * tot))


def bingham_amplification(lam, gap=1e-8):
    """sum|a_j e^{l_j}| / |sum a_j e^{l_j}| of the float64 formula (cancellation factor)."""
    with mp.workdps(60):
        l = sorted(mp.mpf(float(x)) for x in lam)
        for i in range(1, len(l)):
            if l[i] - l[i - 1] < gap:
                l[i] = l[i - 1] + mp.mpf(gap)
        D = len(l)
        terms = []
        for j in range(D):
            den = mp.mpf(1)
            for i in range(D):
                if i != j:
                    den *= (l[j] - l[i])
            terms.append(mp.exp(l[j]) / den)
        return float(sum(abs(t) for t in terms) / abs(sum(terms)))


def bingham_logpdf(z, U, lam):
    z = np.asarray(z, dtype=complex)
    B = (U * np.asarray(lam)) @ U.conj().T
    ln = bingham_log_norm(lam)
    out = np.empty(z.shape[0])
    for n in range(z.shape[0]):
        out[n] = float(np.real(np.conj(z[n]) @ B @ z[n])) - ln
    return out


def bingham_grad_log_norm(lam):
    """d log c / d lambda_j via 60-digit central differences of the exact normaliser."""
    with mp.workdps(60):
        lam = [mp.mpf(float(x)) for x in lam]
        D = len(lam)

        def logc(l):
            tot = mp.mpf(0)
            for j in range(D):
                den = mp.mpf(1)
                for i in range(D):
                    if i != j:
                        den *= (l[j] - l[i])
                tot += mp.exp(l[j]) / den
            return mp.log(tot)
        out = []
        h = mp.mpf('1e-20')
        for j in range(D):
            lp = list(lam)
            lm = list(lam)
            lp[j] += h
            lm[j] -= h
            out.append(float((logc(lp) - logc(lm)) / (2 * h)))
        return np.array(out)


# ---------------------------------------------------------------- cACG

def cacg_logpdf(y, U, lam):
    """-D log(z^H B^-1 z) - log det B with B = U diag(lam) U^H; y normalised here."""
    y = np.asarray(y, dtype=complex)
    D = y.shape[-1]
    tiny = np.finfo(float).tiny
    Binv = (U * (1.0 / np.asarray(lam))) @ U.conj().T
    logdet = float(np.sum(np.log(lam)))
    out = np.empty(y.shape[0])
    q = np.empty(y.shape[0])
    for n in range(y.shape[0]):
        z = unit(y[n])
        q[n] = max(abs(np.conj(z) @ Binv @ z), tiny)
        out[n] = -D * math.log(q[n]) - logdet
    return out, q


def sphere_area_complex(D):
    return 2 * math.pi ** D / math.factorial(D - 1)
