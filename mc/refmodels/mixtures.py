"""Adapters for the seven mixture models plus the boring reference E-step, M-steps and
EM loop (DESIGN Appendix A).  The reference code uses explicit loops over (leading
index, class, frame) and shares no helper with pb_bss."""
import math

import numpy as np

from mc import impl
from mc.refmodels import densities as RD

TINY = np.finfo(np.float64).tiny

MODELS = ('cacgmm', 'cwmm', 'cbmm', 'gmm', 'vmfmm', 'gcacgmm', 'vmfcacgmm')
COMPLEX_OBS = {'cacgmm', 'cwmm', 'cbmm', 'gcacgmm', 'vmfcacgmm'}
INTEGRATION = {'gcacgmm', 'vmfcacgmm'}


def norm_axes(wca, ndim=None):
    """weight_constant_axis -> sorted tuple of negative axes."""
    if isinstance(wca, int):
        wca = (wca,)
    out = []
    for a in wca:
        if a >= 0:
            if ndim is None:
                raise ValueError('positive axis needs ndim')
            a -= ndim
        out.append(a)
    return tuple(sorted(out))


def unit_rows(y):
    """(..., N, D) -> rows scaled to unit norm; zero rows stay zero."""
    y = np.asarray(y)
    out = np.zeros_like(y)
    for idx in np.ndindex(*y.shape[:-1]):
        n = math.sqrt(float(np.sum(np.abs(y[idx]) ** 2)))
        out[idx] = y[idx] / n if n > 0 else 0
    return out


# ---------------------------------------------------------------------------
# implementation side


def trainer(model, **init_kw):
    d = impl.dist()
    return {'cacgmm': d.CACGMMTrainer, 'cwmm': d.CWMMTrainer, 'cbmm': d.CBMMTrainer,
            'gmm': d.GMMTrainer, 'vmfmm': d.VMFMMTrainer, 'gcacgmm': d.GCACGMMTrainer,
            'vmfcacgmm': d.VMFCACGMMTrainer}[model](**init_kw)


def fit(model, data, init=None, iterations=1, trainer_kw=None, tr=None, **opts):
    """data: y (..., N, D) or (observation (F,T,D), embedding (F,T,E))."""
    tr = tr if tr is not None else trainer(model, **(trainer_kw or {}))
    kw = dict(opts)
    if isinstance(init, int):
        kw['num_classes'] = init
    else:
        kw['initialization'] = init
    if model in INTEGRATION:
        return tr.fit(data[0], data[1], iterations=iterations, **kw)
    return tr.fit(data, iterations=iterations, **kw)


def predict(model, m, data):
    if model in INTEGRATION:
        return m.predict(data[0], data[1])
    return m.predict(data)


def component(model, m):
    """(family, component object) of a fitted mixture."""
    return {'cacgmm': ('cacg', getattr(m, 'cacg', None)),
            'cwmm': ('watson', getattr(m, 'complex_watson', None)),
            'cbmm': ('bingham', getattr(m, 'complex_bingham', None)),
            'gmm': ('gaussian', getattr(m, 'gaussian', None)),
            'vmfmm': ('vmf', getattr(m, 'vmf', None))}[model]


def num_classes(model, m):
    if model in ('cacgmm', 'gcacgmm', 'vmfcacgmm'):
        return m.cacg.covariance_eigenvalues.shape[-2]
    if model == 'cwmm':
        return m.complex_watson.concentration.shape[-1]
    if model == 'cbmm':
        return m.complex_bingham.covariance_eigenvalues.shape[-2]
    if model == 'gmm':
        return m.gaussian.mean.shape[-2]
    if model == 'vmfmm':
        return m.vmf.concentration.shape[-1]


def _slice_logpdf(family, comp, idx, y):
    """public log_pdf of ONE component (leading index+class idx) on frames y (N, D)."""
    d = impl.dist()
    if family == 'cacg':
        c = d.ComplexAngularCentralGaussian(
            covariance_eigenvectors=comp.covariance_eigenvectors[idx],
            covariance_eigenvalues=comp.covariance_eigenvalues[idx])
        return c.log_pdf(y)
    if family == 'watson':
        c = d.ComplexWatson(mode=comp.mode[idx], concentration=comp.concentration[idx])
        return c.log_pdf(unit_rows(y))
    if family == 'bingham':
        c = d.ComplexBingham(covariance_eigenvectors=comp.covariance_eigenvectors[idx],
                             covariance_eigenvalues=comp.covariance_eigenvalues[idx])
        return c.log_pdf(unit_rows(y))
    if family == 'gaussian':
        c = type(comp)(mean=comp.mean[idx], covariance=comp.covariance[idx])
        return c.log_pdf(y)
    if family == 'vmf':
        c = d.VonMisesFisher(mean=comp.mean[idx], concentration=comp.concentration[idx])
        return c.log_pdf(y)
    raise ValueError(family)


def component_logpdf(model, m, data):
    """(..., K, N) table of the component log-densities reported by the public log_pdf,
    evaluated one leading index and one class at a time."""
    K = num_classes(model, m)
    if model in INTEGRATION:
        obs, emb = data
        F, T, _ = obs.shape
        out = np.zeros((F, K, T))
        sec_family, sec = ('gaussian', m.gaussian) if model == 'gcacgmm' else ('vmf', m.vmf)
        for f in range(F):
            for k in range(K):
                a = _slice_logpdf('cacg', m.cacg, (f, k), obs[f])
                b = _slice_logpdf(sec_family, sec, (k,), emb[f])
                out[f, k] = m.spatial_weight * np.asarray(a) + m.spectral_weight * np.asarray(b)
        return out
    family, comp = component(model, m)
    y = data
    lead = y.shape[:-2]
    N = y.shape[-2]
    out = np.zeros(lead + (K, N))
    for idx in np.ndindex(*lead):
        for k in range(K):
            out[idx + (k,)] = np.asarray(_slice_logpdf(family, comp, idx + (k,), y[idx]))
    return out


def expected_weight_shape(model, wca, aff_shape):
    """Documented shape of the stored weight array (A.1)."""
    K = aff_shape[-2]
    if model in INTEGRATION:
        axes = norm_axes(wca, len(aff_shape))
        if -2 in axes:
            return ()
        return tuple(s for i, s in enumerate(aff_shape) if (i - len(aff_shape)) not in axes)
    if isinstance(wca, int) and norm_axes(wca, len(aff_shape)) == (-2,):
        return (K, 1)
    axes = norm_axes(wca, len(aff_shape))
    return tuple(1 if (i - len(aff_shape)) in axes else s for i, s in enumerate(aff_shape))


def weight_full(model, m, aff_shape):
    """pi_k(l, n): the stored weights placed by the reference tying rule, broadcast to
    the affiliation shape.  Raises ValueError if the stored array cannot be placed."""
    w = np.asarray(m.weight, dtype=float)
    if model in INTEGRATION:
        axes = norm_axes(m.weight_constant_axis, len(aff_shape))
        if w.ndim == 0:
            return np.full(aff_shape, float(w))
        shape = [None] * len(aff_shape)
        it = iter(w.shape)
        for i in range(len(aff_shape)):
            shape[i] = 1 if (i - len(aff_shape)) in axes else next(it)
        return np.broadcast_to(w.reshape(shape), aff_shape)
    return np.broadcast_to(w, aff_shape)


# ---------------------------------------------------------------------------
# reference E-step


def bayes(logp, pi, mask=None, eps=0.0):
    """gamma_k = pi_k exp(L_k) [mask_k] / sum_j ...; loops over every (leading index, frame).
    Evaluated in the log domain over the classes that can contribute (active, weight > 0, finite
    log-density) so that neither an inactive nor a zero-weight class can make the others underflow."""
    logp = np.asarray(logp, dtype=float)
    K, N = logp.shape[-2:]
    lead = logp.shape[:-2]
    out = np.zeros(logp.shape)
    for idx in np.ndindex(*lead):
        for n in range(N):
            t = {}
            for k in range(K):
                if mask is not None and not mask[idx + (k, n)]:
                    continue
                w = float(pi[idx + (k, n)])
                L = float(logp[idx + (k, n)])
                if w > 0 and L != -math.inf:
                    t[k] = L + math.log(w)
            if t:
                mx = max(t.values())
                g = {k: math.exp(v - mx) for k, v in t.items()}
                s = sum(g.values())
            for k in range(K):
                v = g[k] / s if (t and k in t) else 0.0
                if eps:
                    v = min(max(v, eps), 1 - eps)
                out[idx + (k, n)] = v
    return out


def mixture_loglik(logp, pi, saliency=None):
    """sum_l sum_n s_n log sum_k pi_k p_k(y_n), loops + log-sum-exp."""
    logp = np.asarray(logp, dtype=float)
    K, N = logp.shape[-2:]
    total = 0.0
    for idx in np.ndindex(*logp.shape[:-2]):
        for n in range(N):
            terms = [logp[idx + (k, n)] + math.log(pi[idx + (k, n)])
                     for k in range(K) if pi[idx + (k, n)] > 0]
            mx = max(terms)
            v = mx + math.log(sum(math.exp(t - mx) for t in terms))
            total += v * (1.0 if saliency is None else float(saliency[idx + (n,)]))
    return total


# ---------------------------------------------------------------------------
# reference M-steps


def ref_weights(aff, saliency, wca):
    """A.1: W = sum_A s*gamma / sum_k sum_A s*gamma; uniform 1/K when -2 in A.
    Returns the full broadcast array pi (aff shape)."""
    aff = np.asarray(aff, dtype=float)
    nd = aff.ndim
    axes = norm_axes(wca, nd)
    K = aff.shape[-2]
    if -2 in axes:
        return np.full(aff.shape, 1.0 / K)
    sg = aff if saliency is None else aff * np.asarray(saliency, float)[..., None, :]
    num = sg
    for a in axes:
        num = num.sum(axis=a, keepdims=True)
    den = num.sum(axis=-2, keepdims=True)
    with np.errstate(all='ignore'):
        w = np.where(den == 0, 0.0, num / np.where(den == 0, 1.0, den))
    return np.broadcast_to(w, aff.shape)


def m_gaussian(y, c, cov_type):
    """y (N,D), c (N,) weights -> mean, covariance."""
    y = np.asarray(y, float)
    N, D = y.shape
    sc = max(float(np.sum(c)), TINY)
    mean = np.zeros(D)
    for n in range(N):
        mean += c[n] * y[n]
    mean /= sc
    if cov_type == 'full':
        cov = np.zeros((D, D))
        for n in range(N):
            d = y[n] - mean
            cov += c[n] * np.outer(d, d)
        cov /= sc
    elif cov_type == 'diagonal':
        cov = np.zeros(D)
        for n in range(N):
            d = y[n] - mean
            cov += c[n] * d * d
        cov /= sc
    else:
        cov = 0.0
        for n in range(N):
            d = y[n] - mean
            cov += c[n] * float(d @ d)
        cov /= sc * D
    return mean, cov


def m_cgauss(y, c):
    y = np.asarray(y, complex)
    N, D = y.shape
    cov = np.zeros((D, D), complex)
    for n in range(N):
        cov += c[n] * np.outer(y[n], np.conj(y[n]))
    return cov / max(float(np.sum(c)), TINY)


def scatter(z, c):
    z = np.asarray(z, complex)
    N, D = z.shape
    R = np.zeros((D, D), complex)
    for n in range(N):
        R += c[n] * np.outer(z[n], np.conj(z[n]))
    return R / float(np.sum(c))


def watson_kappa_from_eig(lam_max, D, kmax=500.0):
    """kappa with rho(kappa) = lam_max (mpmath bisection), clipped to [0, kmax]; 0 below the
    spline domain edge rho(1e-3)."""
    if lam_max <= RD.watson_ratio(1e-3, D):
        return 0.0
    if lam_max >= RD.watson_ratio(kmax, D):
        return float(kmax)
    lo, hi = 1e-3, float(kmax)
    for _ in range(80):
        mid = 0.5 * (lo + hi)
        if RD.watson_ratio(mid, D) < lam_max:
            lo = mid
        else:
            hi = mid
    return 0.5 * (lo + hi)


def m_vmf(y, c, kmin=1e-10, kmax=500.0):
    """y (N,D) real (normalised here)."""
    y = unit_rows(np.asarray(y, float))
    N, D = y.shape
    r = np.zeros(D)
    for n in range(N):
        r += c[n] * y[n]
    nr = math.sqrt(float(r @ r))
    mean = r / max(nr, TINY)
    rbar = nr / float(np.sum(c))
    if rbar >= 1 - 1e-15:
        kappa = kmax
    else:
        kappa = (rbar * D - rbar ** 3) / (1 - rbar ** 2)
    kappa = min(max(kappa, kmin), kmax)
    return mean, kappa, rbar


def m_cacg(z, c, q, hermitize=True, norm='eigenvalue', floor=1e-10):
    """One Tyler/Ito step.  z (N,D) unit rows, c (N,) weights, q (N,) quadratic forms.
    Returns covariance matrix B (D,D) and (eigenvalues ascending, eigenvectors)."""
    z = np.asarray(z, complex)
    N, D = z.shape
    B = np.zeros((D, D), complex)
    for n in range(N):
        B += (c[n] / max(q[n], 10 * TINY)) * np.outer(z[n], np.conj(z[n]))
    B *= D / max(float(np.sum(c)), TINY)
    if hermitize:
        B = (B + B.conj().T) / 2
    if norm == 'trace':
        B = B / max(float(np.real(np.trace(B))), TINY)
    lam, U = np.linalg.eigh(B)
    if norm == 'eigenvalue':
        lam = lam / max(lam.max(), TINY)
        lam = np.maximum(lam, floor)
    else:
        lam = np.maximum(lam, lam.max() * floor)
    return (U * lam) @ U.conj().T, lam, U


def canon_psd(U, lam):
    """U diag(lam) U^H for stacked eigen-objects (..., D, D), (..., D)."""
    U = np.asarray(U)
    lam = np.asarray(lam)
    return np.einsum('...ij,...j,...kj->...ik', U, lam, U.conj())


def canon_mode(m):
    m = np.asarray(m)
    return np.einsum('...i,...j->...ij', m, m.conj())


# ---------------------------------------------------------------------------
# canonical fields of a fitted model: name -> (array, class axis (negative) or None)


def fields(model, m):
    out = {}
    w = np.asarray(m.weight, dtype=float)
    out['weight'] = w
    if model in ('cacgmm', 'gcacgmm', 'vmfcacgmm'):
        out['cacg_cov'] = canon_psd(m.cacg.covariance_eigenvectors, m.cacg.covariance_eigenvalues)
        out['cacg_eigvals'] = np.sort(np.asarray(m.cacg.covariance_eigenvalues), axis=-1)
        with np.errstate(all='ignore'):
            out['cacg_logeig'] = np.log(out['cacg_eigvals'])
    if model == 'cwmm':
        out['watson_mode'] = canon_mode(m.complex_watson.mode)
        out['watson_kappa'] = np.asarray(m.complex_watson.concentration)
    if model == 'cbmm':
        out['bingham_cov'] = canon_psd(m.complex_bingham.covariance_eigenvectors,
                                       m.complex_bingham.covariance_eigenvalues)
    if model in ('gmm', 'gcacgmm'):
        out['gauss_mean'] = np.asarray(m.gaussian.mean)
        out['gauss_cov'] = np.asarray(m.gaussian.covariance)
    if model in ('vmfmm', 'vmfcacgmm'):
        out['vmf_mean'] = np.asarray(m.vmf.mean)
        out['vmf_kappa'] = np.asarray(m.vmf.concentration)
    return out


CLASS_AXIS = {'cacg_cov': -3, 'cacg_eigvals': -2, 'cacg_logeig': -2, 'watson_mode': -3, 'watson_kappa': -1,
              'bingham_cov': -3, 'gauss_mean': -2, 'vmf_mean': -2, 'vmf_kappa': -1}


def gauss_cov_class_axis(arr, K):
    """class axis of a Gaussian covariance array (full: -3, diagonal: -2, spherical: -1)."""
    return None
