#!/venv/bin/python
"""Seventh-round seeding prompt: seed_prompt.py plus the list of changes that already exist and a different
list of suggested mechanisms.  usage: seed_prompt7.py C14 <worktree>"""
import json, subprocess, sys
pid, wt = sys.argv[1], sys.argv[2]
base = subprocess.run(['/verif/tools/seed_prompt.py', pid, wt], capture_output=True, text=True).stdout
prior = json.load(open('/tmp/wt_tools/prior.json')).get(pid, [])
extra = ("\n\nOther people already produced the following changes for this property; yours must be DIFFERENT from "
         "them (other functions, other mechanisms, other triggers):\n" + "\n".join(f" - {p}" for p in prior) +
         "\nThe list above is long; yours must be really different from all of them. Work like a maintainer who "
         "means well: a performance optimisation (vectorising a loop, caching, an early exit, an in-place "
         "operation, processing in chunks, replacing a solve by an inverse or a decomposition by a cheaper one), an "
         "API clean-up (merging two code paths, extracting a helper, re-ordering or renaming arguments, accepting "
         "more input types), a numerical 'stabilisation' (a floor, a clip, a regulariser, a log-domain rewrite) or a "
         "compatibility fix for a newer NumPy / SciPy. The slip must survive a careful reviewer: the changed code "
         "has to look right and be right for ordinary inputs. Make it depend on something that has not been used as a "
         "trigger in the list above (look at the triggers there: sizes, dtypes, memory layouts, zero / tied / extreme "
         "values, options and call sequences have all been used - combine two of them, or find a structural property "
         "of the input such as symmetry, sortedness, sparsity, a repeated row, a constant column, equal leading "
         "sizes, a prime number of frames). "
         "Put the body of each demo under `if __name__ == '__main__':` (the test suite imports every .py file). "
         "Never use `git stash`; revert with `git checkout -- pb_bss`.")
print(base + extra)
