#!/venv/bin/python
"""Re-creates the seeded patches that touch estimate_mixture_weight (its text changed through the
fix commits) by applying the same semantic edit to the current HEAD in a scratch worktree."""
import subprocess, os, sys, shutil
wt = '/tmp/wt/readapt'
subprocess.run(['git', '-C', '/repo', 'worktree', 'remove', '--force', wt], capture_output=True)
subprocess.run(['git', '-C', '/repo', 'worktree', 'add', '-q', '--detach', wt, 'HEAD'], check=True)
p = wt + '/pb_bss/distribution/mixture_model_utils.py'
orig = open(p).read()
a = orig.index("def estimate_mixture_weight("); b = orig.index("def _estimate_mixture_weight_with_dirichlet")
blk = orig[a:b]

def emit(seed, new_blk):
    assert new_blk != blk, seed
    open(p, 'w').write(orig[:a] + new_blk + orig[b:])
    d = subprocess.run(['git', '-C', wt, 'diff', '--', 'pb_bss'], capture_output=True, text=True).stdout
    open(f'/verif/seeded/{seed}/patch.diff', 'w').write(d)
    open(p, 'w').write(orig)

ins = """        # Only the relative saliency matters. It is often a power estimate
        # with a huge dynamic range, so normalize it first to keep the sums
        # below in a sane numeric range (and to allow boolean saliency).
        saliency = _unit_norm(
            np.asarray(saliency, dtype=affiliation.dtype),
            ord=1,
            axis=-1,
            eps=1e-10,
            eps_style='where',
        )
        masked_affiliation = affiliation * saliency[..., None, :]
"""
emit('C02a', blk.replace("        masked_affiliation = affiliation * saliency[..., None, :]\n", ins, 1))
ins2 = """    # The weights are used as class probabilities later on (e.g.
    # np.random.choice in sample_cacgmm is picky about that). Remove the
    # rounding error of the reduction, so that they sum up to one exactly.
    weight[..., -1, :] = 1 - np.sum(weight[..., :-1, :], axis=-2)

    return weight
"""
i = blk.rindex("    return weight\n")
emit('C05a', blk[:i] + ins2 + blk[i + len("    return weight\n"):])
assert blk.count("eps_style='where'") == 1
emit('C09b', blk.replace("eps_style='where'", "eps_style='max'"))

# ---- patches touching ComplexAngularCentralGaussian.from_covariance (text changed by fix e09c314)
p2 = wt + '/pb_bss/distribution/complex_angular_central_gaussian.py'
orig2 = open(p2).read()

def emit2(seed, new):
    assert new != orig2, seed
    open(p2, 'w').write(new)
    d = subprocess.run(['git', '-C', wt, 'diff', '--', 'pb_bss'], capture_output=True, text=True).stdout
    open(f'/verif/seeded/{seed}/patch.diff', 'w').write(d)
    open(p2, 'w').write(orig2)

# C09a: eigenvalue branch floors relative to the largest eigenvalue instead of the absolute floor
old = """            eigenvals = np.maximum(
                eigenvals,
                eigenvalue_floor,
            )
"""
new = """            # The flooring is relative to the largest eigenvalue (which is one
            # after the eigenvalue normalization).
            eigenvals = np.maximum(
                eigenvals,
                np.amax(eigenvals, axis=-1, keepdims=True) * eigenvalue_floor,
            )
"""
assert orig2.count(old) == 1
emit2('C09a', orig2.replace(old, new))
# C06a: relative floor uses the maximum over the whole stack
old = "            max_eigenval = np.amax(eigenvals, axis=-1, keepdims=True)\n"
new = "            # Relative flooring with respect to the largest eigenvalue.\n            max_eigenval = np.amax(eigenvals)\n"
assert orig2.count(old) == 1
emit2('C06a', orig2.replace(old, new))
subprocess.run(['git', '-C', '/repo', 'worktree', 'remove', '--force', wt], check=True)
print('re-adapted C02a C05a C09b C09a C06a against', subprocess.run(['git', '-C', '/repo', 'rev-parse', '--short', 'HEAD'], capture_output=True, text=True).stdout.strip())
