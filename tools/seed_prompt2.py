#!/venv/bin/python
"""Second-round seeding prompt: same as seed_prompt.py plus a list of changes that were already produced
(so that the new ones are different).  usage: seed_prompt2.py C14 <worktree>"""
import json, subprocess, sys
pid, wt = sys.argv[1], sys.argv[2]
base = subprocess.run(['/verif/tools/seed_prompt.py', pid, wt], capture_output=True, text=True).stdout
prior = json.load(open('/tmp/wt_tools/prior.json')).get(pid, [])
extra = ("\n\nOther people already produced the following changes for this property; yours must be DIFFERENT from "
         "them (other functions, other mechanisms, other triggers):\n" + "\n".join(f" - {p}" for p in prior) +
         "\nPrefer mechanisms such as: a wrong axis that happens to have the right length, an off-by-one in a range "
         "or slice, a dtype / memory-layout dependent path, an in-place update of an argument or of shared state, "
         "a guard (floor, clip, eps, where) applied at the wrong place or scale, an option that is silently "
         "ignored or only honoured in one of two code paths, broken handling of an edge size (1, 2) or of ties. "
         "Never use `git stash`; revert with `git checkout -- pb_bss`.")
print(base + extra)
