HOOK_COMMITS = ['e5a4503']
NOTES = ('All checks are bounded exhaustive explorations ("model checking" family) run on the real code of '
         '/repo\'s working tree; see DESIGN.md. KNOWN_FINDINGS.txt lists recorded/fixed defects.')

for k in ['C%02d' % i for i in range(1, 21)]:
    NOT_YET[k] = 'check under construction in this build round (design in DESIGN.md §3); not claimed until its driver is committed'

check('C14', 'model_checking',
      'exhaustive enumeration of score matrices / binary masks / DHTV plans with a reference state machine',
      'Every score matrix over {0,1,2} (K<=3), every {0,1} mask of the small shapes x 3 metrics x 2 algorithms x '
      'greedy/oracle/DHTV with every (start,width,shift<=width) plan is run through the real aligners; bijectivity, '
      'exact re-ordering, multiset preservation and equality with a loop-level reference state machine are checked '
      'on every case; inline alignment inside EM is observed through the iteration hook; the built-in '
      'spatial/spectral alignment is checked on all 3-value log-pdf tables. Exhaustive within the stated alphabet.',
      'Trusted: the reference assignment rules in mc/refmodels/alignment.py; masks outside the {0,1} alphabet are '
      'covered by a generic-position family only.',
      'DESIGN.md §3 C14')
for k in CHECKS:
    NOT_YET.pop(k, None)

check('C07', 'exploration',
      'complete enumeration of a parameter/point grid against closed forms; product quadrature',
      'Full product of family x D (1..8 / 2..6) x covariance condition (1..1e8) / concentration (1e-6..500) / '
      'Bingham spectra x evaluation points x parameter stacks; every value compared with an independent closed form '
      '(loops, slogdet/solve, mpmath besseli/hyp1f1, 60-digit Bingham normaliser); integrates-to-one by product '
      'quadrature on the complex unit sphere (D=2), S^1, S^2, R^1, R^2.',
      'Grid, not all reals; Bingham spectra whose float64 normaliser has a cancellation factor > 1e6 are checked for '
      'finiteness only; quadrature for D<=3 only.',
      'DESIGN.md §3 C07')
check('C01', 'exploration',
      'deviation-bounded exhaustive exploration of the configuration space + exhaustive small data alphabet',
      'Every configuration of the seven mixture models that departs from the defaults in <= 2 (quick) / 4 (thorough, '
      '485 520 configurations) options, the full product model x tying x data kind x start, and all data sets over '
      'the Gaussian-integer alphabet (D=2, N<=3) are fitted with the real trainers; the shared posterior routine is '
      'run on every log-density vector over a 7-value alphabet spanning the exp() range x every activity pattern x '
      'weights incl. exact zeros x clip (32 830 cases); every E-step result (iteration hook), predict and '
      'fit_predict output is checked for shape/finite/[0,1]/sum-to-one/mask zeros and compared with an independent '
      'Bayes rule built from the public component log_pdf and the stored weights; initializers for all K<=6, N<=12.',
      'An exception is accepted where the property allows it (degenerate data kinds, too few frames, K=1, a class '
      'without mass); on regular data an exception is reported. Single precision: dynamic range 1e-12..1e12.',
      'DESIGN.md §3 C01')
for k in CHECKS:
    NOT_YET.pop(k, None)

check('C08', 'model_checking',
      'exhaustive small saliency patterns against reference estimators; reference EM run in lock-step with the implementation (every traced iteration state)',
      'Single-distribution trainers and the mixture-weight update are compared with loop-level reference estimators on '
      'every assignment of {0,0.5,1,2} to N<=4 frames (plus graded / none), all documented options and leading axes; '
      'the repetition law is checked for every integer saliency vector in {1..3}^N; for the seven mixture trainers a '
      'reference EM (reference densities + reference estimators + reference aligner) is run next to the '
      'implementation: every traced (affiliation, quadratic form, model) state is compared per step from the '
      "implementation's own previous state, the hook is validated against fit(iterations=i), and the n-fold "
      'reference composition is compared end to end.',
      'Watson concentration judged by the residual of the eigenvalue equation (1e-6), Bingham eigenvalues by the '
      'gradient equation (1e-5); a Gaussian fit may raise when the weighted scatter is singular; generic-position data.',
      'DESIGN.md §3 C08')
for k in CHECKS:
    NOT_YET.pop(k, None)

check('C02', 'model_checking',
      'explicit-state exploration of EM trajectories with the implementation as transition function; invariant on every edge',
      'State = model after iteration i of one (family/options, tying, saliency, eps, K, D, F, data set, start); '
      'transitions = EM iterations executed by the real trainers (iteration hook, cross-checked with fit(iterations=i)) '
      'and, for cACGMM, jump edges fit(initialization=model_i, iterations=j) that must land on state i+j. The independent '
      'mixture log-likelihood (reference densities, stored weights, saliency-weighted) must be non-decreasing on every '
      'unguarded edge; CACGMM.log_likelihood must equal it in every state. 12 (quick) / 50 (thorough) iterations.',
      'Generic-position data sets built from the seed (clustered / unclustered / tight), N = 4KD; quick tier is a '
      'covering subset of the full product (stated in the evidence), thorough is the full product.',
      'DESIGN.md §3 C02')
check('C09', 'exploration',
      'deviation-bounded exhaustive exploration of degenerate data x options; predicates on every traced model',
      'All configurations with <= 2 (quick) / 3 (thorough) non-default options on every degenerate data kind '
      '(zero / duplicated / collinear / too few frames, 1e+-150 scales) x soft and hard starts, plus the full product '
      'model x data kind x start x iterations x covariance norm, plus regular data; every intermediate model seen by '
      'the iteration hook is checked against the documented domain (weights, cACG eigen-structure, modes, '
      'concentrations, covariances, Bingham eigenvalues); the single-distribution trainers on the same data.',
      'Predicates only; an explicit exception is accepted on degenerate data and counted.',
      'DESIGN.md §3 C09')
for k in CHECKS:
    NOT_YET.pop(k, None)

check('C03', 'exploration',
      'complete enumeration of a scenario product (prototype sets x perturbation x sizes x gains x blur x iterations)',
      'Full product of 7 mixture models x K{2,3,4} x D{K,K+1(,8)} x three prototype sets (canonical, rotated, pairwise '
      '|cos|=0.3) x perturbation {0,1e-3,1e-2} x equal/unequal class sizes x gain kinds (none, phasors, magnitudes '
      '1e+-12, alternating 1e-100/1e100) x one-hot / 0.6-0.4 blurred true partition x iterations {1,2,5,20} x tying: '
      'every observation must have its true class as MAP class; class parameters must be associated with their '
      'prototype and within 10*perturbation+1e-6 of it (one-hot starts always, blurred starts after 20 iterations).',
      'Tight-angle and association clauses are restricted for blurred starts as stated in DESIGN.md (the blurred '
      'mixture of prototypes after one M-step is not "at the prototype" by construction); one known finding '
      '(GMM, K=2, heavy blur, tiny classes) is listed in KNOWN_FINDINGS.txt.',
      'DESIGN.md §3 C03')
check('C04', 'exploration',
      'metamorphic relation checked on a completely enumerated gain alphabet',
      'All assignments of 7 gains (unit phasors, 1e-100, 1e100, 1e-3 e^{i theta}) to N=4 frames (up to frame order in '
      'the quick tier) and gain pairs at several positions for N=12 under every configuration with <=1 non-default '
      'option x iterations {1,3,10}: fit(c*y) == fit(y) field-wise in canonical form, predict and log-likelihood '
      'equal, for cACGMM/cWMM/cBMM, the spatial streams of the integration models, vMFMM and the embedding stream '
      '(positive gains); the single-distribution trainers and log_pdf under the same gain fields.',
      'Raw ComplexWatson/ComplexBingham.log_pdf document unit-norm input: only unit-modulus gains are applied there.',
      'DESIGN.md §3 C04')
check('C05', 'exploration',
      'metamorphic relation over all K! relabellings x deviation-bounded configuration space',
      'All K! permutations of the class axis of the start (and of the source-activity mask) for K<=3 (K=4: all in the '
      'thorough tier, a generating subset in quick) x every configuration with <=1 (quick) / 2 (thorough) non-default '
      'options x iterations {1,2,5,20} x soft and one-hot starts, plus the full product model x tying x saliency x '
      'mask: every fitted field and the posterior must be permuted along its own class axis.',
      'Single precision only for <=2 iterations (rounding is amplified by long EM runs); a fit that raises is judged '
      'by C01/C09, not here.',
      'DESIGN.md §3 C05')
check('C06', 'exploration',
      'differential check stacked vs. per-slice over all small leading shapes',
      'For every leading shape of length 1..3 over sizes {1,2,3} (thorough: sizes up to 5 for <=2 axes), with '
      'different content per slice (different scales, one rank-deficient slice next to a concentrated one, one slice '
      'with log-densities ~750 nats away / a silent frame): every single-distribution trainer and log_pdf and the '
      'mixture trainers cACGMM (3 norms), cWMM, cBMM, GMM (3 covariance types), vMFMM return for each slice what '
      'the same call returns on that slice alone (eigen-objects in canonical form, eigenvalues also in the log '
      'domain); singleton-leading starts behave like their repetition.',
      'Generic-position content per slice; cBMM restricted to <=4 slices (cost).',
      'DESIGN.md §3 C06')
for k in CHECKS:
    NOT_YET.pop(k, None)

check('C10', 'exploration',
      'complete enumeration of axis layouts x shapes x mask kinds against the defining sum in loops',
      'Full product of 15 leading shapes (0..3 axes of sizes 1,2) x (D,T,K) triples with equal and unequal sizes x 9 '
      'mask kinds (none; time-only float/boolean/all-zero/one-hot/x1000; source-axis float/boolean/all-zero) x every '
      'valid placement of sensor_dim/time_dim/source_dim (positive and negative indices) x normalize: the result equals '
      'the defining sum written in loops per (leading index, source) - exactly on Gaussian-integer data - is Hermitian '
      'PSD, invariant to rescaling a normalised mask, zero for a zero mask, has the documented axis order, and the '
      'read-only arguments are untouched; condition_covariance against its formula.',
      'Valid layouts as documented (time-only masks have time last; source-axis masks have the observation rank).',
      'DESIGN.md §3 C10')
check('C11', 'exploration',
      'complete enumeration of a problem grid with constraint / first-order optimality / closed-form oracles',
      'Full product D{2,3,5,8} x F{1,2,5|32} x K{1,2,3} x steering {basis, generic, x1e3} x noise PSD {identity, '
      'diagonal 1e6, generic cond 1,1e3,1e6} (x target power, reference channel each/automatic, mu {0,.5,1,100}, '
      'scale factors): w^H a = 1, the complete first-order optimality test on a basis of the constraint null space '
      'plus explicit competitors, LCMV constraints and closed form, Souden = MVDR*conj(a_ref), WMWF as exact minimiser '
      '(normal-equation residual) and rank-one closed form, scale invariances, mu=0 == Souden, automatic reference '
      'maximises the library criterion recomputed in loops.',
      'Tolerances scale with the known condition number of the atoms.',
      'DESIGN.md §3 C11')
check('C12', 'exploration',
      'complete enumeration of a problem grid with a full probe set per case',
      'Full product D{2,3,5,8} x leading {(),(3,),(2,3)} x target {rank-1, rank-2, full} x noise {identity, cond 1e3, '
      '1e6} x use_eig: the GEV output SNR equals lambda_max (Cholesky whitening + eigvalsh) and no probe (basis, all '
      'generalised eigenvectors, every vector get_bf_vector can produce incl. +ban, generic vectors) exceeds it; PCA '
      'quotient/scalings/direction; rank-one estimates Hermitian, rank one, trace preserving, exact on rank-one '
      'targets; BAN factor, direction/SNR unchanged, independence of |w|.',
      'Generic-position PSD atoms with known spectrum.',
      'DESIGN.md §3 C12')
check('C13', 'exploration',
      'complete enumeration of wrapper names x options x shapes; all 81 singular-bin patterns',
      'All 13 core names x {"", "+ban"} x reference channel {default, each} / atf options x D{2,3,5} x F x 0..2 extra '
      'leading axes: get_bf_vector equals the composition spelled by its name written with the public primitives, and '
      'every stacked call equals the call on each slice; apply_beamforming_vector = w^H x in loops; phase_correction '
      'per leading index (aligned consecutive bins, magnitudes, input untouched, sequential-loop reference); every '
      'assignment of {regular, rank-one, zero} to 4 bins for noise/target/both: Souden and WMWF finite, regular bins '
      'unaffected.',
      'One known finding (Souden with numerically rank-deficient noise PSD returns inf) in KNOWN_FINDINGS.txt.',
      'DESIGN.md §3 C13')
for k in CHECKS:
    NOT_YET.pop(k, None)

check('C18', 'exploration',
      'exhaustive enumeration of small-alphabet tensors x every axis placement; definition-level loop oracles',
      'All tensors over {0,1,i,1+i,2} (quick: reduced alphabets for the larger shapes) of shapes (K,D,F,T) in '
      '{(2,1,1,2),(3,1,2,1),(2,2,1,2)} - which contain every tie and silence pattern - x every (source_axis, '
      'sensor_axis) placement with positive and negative indices x keepdims, plus generic tensors with 1..4 axes: '
      'IBM one-hot at a source of maximal pooled power and identical across layouts, Wiener-like/IRM in [0,1] summing '
      'to one where the mixture has power, ICM*mixture = source, PSM = Re(ICM), eps-guarded masks finite on silence, '
      'output axes follow the input axes; quantile and Lorenz masks against loop definitions on generic and '
      'tie-laden inputs x axis choices x fractions x weights.',
      'Quantile thresholds: points within 1e-9 of the threshold are at the discontinuity and only judged when '
      '(n-1)p is an exact integer (q=+-0.5, odd n).',
      'DESIGN.md §3 C18')
check('C19', 'exploration',
      'exhaustive ternary estimates for SI-SDR; complete option/permutation enumeration for SXR with brute-force selection oracle',
      'SI-SDR on all 3^8 estimates in {-1,0,1}^8 against four integer references (zero-projection / zero-residual '
      'cases included) and generic signals with leading axes, scale invariance both ways for c in {1e-6,1e-3,-1,2,1e6}; '
      'output_sxr/input_sxr on integer and generic signals for K{1..4} x outputs/sensors {1..5}: values equal the '
      'loop definition with the brute-force selection maximising captured power, 1/SDR=1/SIR+1/SNR, SDR<=min, common '
      'scale invariance, SNR shift by exactly 20log10|c| and fixed SIR under image scaling, independence of ALL output '
      'permutations, averaging options, dict/prefix forms; set_snr/get_snr round trip, inplace both ways.',
      'Ties between output selections are skipped (counted).',
      'DESIGN.md §3 C19')
for k in CHECKS:
    NOT_YET.pop(k, None)

check('C15', 'model_checking',
      'exhaustive enumeration of score matrices and of all K!^F permutation fields; brute-force optimum as oracle',
      "All score matrices over {0,1,2} (K<=3, int and float) and, for K=4..6, every permutation matrix with every "
      "single-entry perturbation over {-1,0,1,2} plus a generic matrix per permutation: the 'optimal' total equals "
      'the brute-force maximum over all permutations and the linear_sum_assignment optimum and is never below the '
      'greedy total. For vetted references (pairwise distinct rows; generic, small-integer and 1e-9-near-equal '
      'kinds) every one of the K!^F per-frequency permutation fields (K,F<=3; K=4,F=5: <=2 non-identity bins) is '
      'undone exactly by the oracle aligner for every metric and both algorithms; flattened (K, F*T) inputs resolve '
      'every global permutation.',
      'near-equal references are only resolvable (in floating point) by the euclidean metric and are checked there.',
      'DESIGN.md §3 C15')
check('C16', 'model_checking',
      'exhaustive permutation fields for small F, deviation-bounded fields for large F, every DHTV plan; TLC plan model replayed against alignment_plan',
      'Greedy aligner: all K!^F fields for (K,F) in {(2,9),(3,5)} (thorough +(2,13),(3,7)); for F in {33,65,257,513} '
      'all piecewise-constant fields with <=2 change points plus alternating / single-flip / block-rotation families. '
      'DHTV: every field of the stated domain (>=70 % majority in the first segment, every placement and order of '
      'the minority) for small F on every plan whose later segments overlap the covered band by >=2/3 (computed from '
      'alignment_plan), the shipped 512/1024 defaults and custom plans on large F with adversarial content outside '
      'the first segment; identity on consistent masks; all 58,904 plans for STFT sizes <=64 cover every bin and '
      'equal the reference plan; on tie-free continuous masks the mapping equals the loop-level reference procedure '
      'and reproduces its converged features; DHTVPlan.tla is model-checked by TLC (MaxF 7 quick / 17 thorough) and '
      'every model behaviour is replayed step by step against alignment_plan.',
      'Masks that are not tie-free for the procedure (exact or near ties in any assignment) are skipped in the '
      'net-reordering clause and counted.',
      'DESIGN.md §3 C16, Appendix B')
for k in CHECKS:
    NOT_YET.pop(k, None)

check('C17', 'exploration',
      'complete enumeration of a scene product; end-to-end chain of the example notebook with threshold oracles',
      'Full product K{2,3} x D{K+1,K+2,8} x (F,T) x {cACGMM, cWMM} x 3 activity partitions x 3 permutation-field '
      'families (identity; 70 %-majority in the first DHTV segment with an adversarial rest and a cyclically shifted '
      'majority order; seeded rest) on synthetic scenes with generic per-frequency steering vectors and -40 dB '
      'sensor noise; chain: fit per frequency from the permuted blurred partition -> predict -> DHTV -> oracle global '
      'alignment -> mask-based PSDs -> get_bf_vector for 13 interference-cancelling names -> '
      'apply_beamforming_vector on images and noise -> output_sxr. MAP accuracy >= 99 % and SIR >= 30 dB for every '
      'source and beamformer (observed margin: 100 %, >= 50 dB).',
      'Custom DHTV plans for F=33/65 are chosen inside the two-thirds-overlap domain of C16; the quick tier drops '
      'part of the F=257 product (stated in the evidence).',
      'DESIGN.md §3 C17')
for k in CHECKS:
    NOT_YET.pop(k, None)

check('C20', 'model_checking',
      'explicit-state search over trainer event histories with the real fit as transition function and exact state merging; exhaustive split edges; TLC cache model replayed',
      'Purity: every public entry point of the mixture / beamforming / masking / alignment / metric modules (135 '
      'drivers; every __all__ name must be covered) is called with read-only and with writeable column-major / '
      'strided arguments, bytes compared afterwards, the call repeated (re-seeded) and compared bit for bit. '
      'Histories: for ten trainer configurations (stateful CWMM/CBMM/Watson/Bingham with and without explicit '
      'dimension / other max_concentration, and stateless ones) a breadth-first search over all event sequences '
      '{fit A(D=3,K=2), fit B(D=3,K=3,saliency,tying), fit C(D=2), fit with num_classes+seed, fit_predict, "use '
      'another trainer object with other settings"} with exact merging on the pickled deep trainer state runs to '
      'closure, and independently every history to depth 3 (quick) / 5 (thorough) without merging; every transition '
      'is compared with the same event on a fresh trainer computed in a pristine python process; a different feature '
      'dimension must be rejected and leave the state unchanged. Split: all edges fit(initialization=model_i, '
      'iterations=j), i+j<=10 (quick) / 20 land on model_(i+j) for 3 data sets x 6 options. TrainerCache.tla is '
      'model-checked by TLC and every maximal path replayed on the four stateful classes. An AST scan rejects '
      'module-/class-level mutable state and memoising decorators in the library.',
      'set_snr(inplace=True) is excepted as documented; get_lcmv_vector_souden raises NotImplementedError by design.',
      'DESIGN.md §3 C20, Appendix B')
for k in CHECKS:
    NOT_YET.pop(k, None)

# ---- extensions made after the seeding rounds 3 and 4 (appended to the descriptions above)
EXTRA = {
    'C01': 'Additionally the shared posterior routine on a log-pdf alphabet (-1e5..1e5) with all activity masks and zero weights, predict(return_quadratic_form=True), frames whose norm is within 1e-6 of one, embeddings 1e7 spreads from the origin, and memory layouts. The built-in spatial/spectral alignment routine on all small two- and three-bin tables, judged per bin.',
    'C02': 'Additionally a large data set (2400 observations per slice) with one observation 60 spreads away, for the three Gaussian covariance types. Long recordings (22 384 frames, 20 000 diffuse frames with 21 channels), fixed_covariance, and starts that do not sum to one over the classes. Gaussian features with 16 and 21 dimensions. Tight classes of unequal spread 0.15 rad apart (four draws).',
    'C03': 'Additionally the posterior returned by fit_predict, perturbation 1e-9 (one-hot starts) and single-precision data for the vMF models. 40 003 observations, CBMMTrainer(max_concentration=500) and integer 0/1 starts. A start in which only the last class is blurred; directional models with 40 003 observations. 40 003 frames ordered by class.',
    'C04': 'Additionally observations that already have unit norm with gain moduli within 1e-5 of one, and rescaled tensors handed over as Fortran-ordered / axis-permuted / strided / negatively strided views; the same model applied to rescaled data is judged at rounding level. 4 097..9 001 frames. The saliency argument of the single-distribution trainers.',
    'C05': 'Additionally nearly tied classes (uniform start with 1e-5 jitter), one trainer object serving all relabelled fits, and the built-in spatial/spectral alignment under every relabelling of every 3-value table (K<=3). Five classes in the built-in alignment, one-dimensional Gaussian observations and 22 frequency bins. A class with a share of 1e-4; 120-iteration runs on overlapping clusters (100 data sets for vMFMM). 22 000 observations without leading axes.',
    'C06': 'Additionally stacks of hand-built parameter sets with one extreme or unusable slice, and stacks of tightly concentrated slices. Boolean saliency that differs per slice, a singleton start together with a per-slice saliency, D = 8. Stacks of nearly noise-free point sources with another noise level per slice. Slices with graded spreads (concentrations from 50 to beyond the upper bound).',
    'C07': 'Additionally Fortran-ordered / axis-permuted parameter stacks, cACG eigenvalues of overall scale 1e-15..1e12, Bingham spectra with one eigenvalue of -3.7e19, and parameters re-assigned on an evaluated object. Integer / float32 means, vMF in D = 1, 2 051 evaluation points, Gaussian tolerance 1e-14*cond.',
    'C08': 'Additionally the integration models with their built-in alignment against a reference E-step, with an active clip of 0.05. fit(initialization=<model>) continuation, zero observations that carry weight, a saturated scene, 70 001 observations.',
    'C09': 'Additionally trainers with different concentration bounds used one after the other (all ordered pairs and triples) and Gaussian data 1e4..1e8 spreads from the origin with a symmetry predicate. Every equivalent form of weight_constant_axis, Bingham bounds in D = 4 and 5, the eigenvalue_floor option.',
    'C10': 'Additionally transposed views as inputs, float32 masks whose sum is far below the float32 epsilon, and an explicit source_dim with masks that have no source axis. Calls that leave out arguments equal to their defaults, condition_covariance on non-C-ordered matrices. Masks whose sum over time is 1 + 3e-6.',
    'C11': 'Additionally noise PSDs stored with a real dtype and other memory layouts of the inputs. (3,F,D,D) stacks, channel_selection_vector, 17/24/31 bins and target powers 9..12 orders below the noise with the automatic reference channel.',
    'C12': "Additionally real-dtype, exactly diagonal and axis-aligned rank-one target PSDs. Exactly diagonal noise, leading axes transposed in memory, get_bf_vector('gev+ban', use_eig=True) against its composition. Dominant targets that are not rank one; stacks of 2 051..4 100 matrices. Targets 50..60 dB above the noise.",
    'C13': "Additionally single-precision PSDs with zero bins. distortion_weight='frequency_dependent', +ban through the wrapper on bins without noise, K vectors on one mixture, bins 15 orders of magnitude apart. A 50 / 70 dB interferer in the noise PSD of one bin must leave the other bins unchanged. A bin 80 dB below the others must get the result it gets alone; one vector stack on a batch of mixtures; mixtures beyond 2**20 samples.",
    'C14': 'Additionally built-in alignment tables with log-likelihoods 800..2000 apart and nearly tied tables with a negative criterion, a source-activity mask together with the inline aligner, and masks in other memory layouts. Tables with -inf entries, aligner(mask, ref) against calculate_mapping + apply_mapping, mappings stored as int8..uint64. Tables with one decided class and two classes within a nat. Tables of 4 101 frames whose last frames decide.',
    'C15': 'Additionally score-matrix stacks with 1..3 leading axes, magnitudes 1e8 (float32) / 1e17 (float64), and one aligner object reused for a reference buffer refilled in place. Antipodal signed references, returned mappings overwritten by the caller between calls. Classes that differ only in the tail of 4 097..9 000 frames; classes 46 dB below the dominant one.',
    'C16': 'Additionally int8 / int32 / uint8 masks and masks scaled by 2**60, 2**-60 (double) and 2**30 (single): the mapping must be bit-identical.',
    'C17': "Additionally sensor noise 80 and 120 dB below the sources; the scene is built on the reference DHTV plan and the implementation plan is compared with it. use_eig=True through the pipeline, fit_predict 40 dB lower, a fresh C-contiguous posterior array. channel_selection_vector / explicit ref_channel in the pipeline. Scenes are vetted (steering vectors of different sources at least 0.25 rad apart in every bin); the un-vetted scene of seed 11 is kept as a fixed case and is a known finding (cWMM + 'mvdr_souden+ban': 19.6 dB).",
    'C18': 'Additionally transposed views as inputs and tuples of quantiles with non-default axes. complex64 inputs and exact Gaussian-integer powers.',
    'C19': 'Additionally inputs in other memory layouts. Sources 120 dB apart, noise longer than the target, singleton leading axes, set_snr requests 1e-3..1e-7 dB apart on one buffer, earlier dict results re-read after later calls. Outputs whose captured powers are 4e-6 apart relatively. Signals of 1 500 and 2 501 samples in the SNR round trip.',
    'C20': 'Additionally call_sequences: for every entry point X and every other entry point Y (all ordered pairs in the thorough tier) the result of X after Y equals the result of X in a pristine process. One identical call repeated 16 times under heap traffic with a bit-exactness expectation; read-only arguments for every entry. Noise PSDs of condition 1e9..1e11 as purity entries; a second utterance handed over through the same refilled buffer in the trainer histories. Starts that are not normalised over the classes and masks with unit-norm rows as purity entries.',
}
for _k, _v in EXTRA.items():
    CHECKS[_k]['level_claimed']['text'] += ' ' + _v
