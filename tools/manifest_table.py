HOOK_COMMITS = ['e5a4503']
NOTES = ('All checks are bounded exhaustive explorations ("model checking" family) run on the real code of '
         '/repo\'s working tree; see DESIGN.md. KNOWN_FINDINGS.txt lists recorded/fixed defects.')

for k in ['C%02d' % i for i in range(1, 21)]:
    NOT_YET[k] = 'check under construction in this build round (design in DESIGN.md §3); not claimed until its driver is committed'

check('C14', 'model_checking',
      'exhaustive enumeration of score matrices / binary masks / DHTV plans with a reference state machine',
      'Every score matrix over {0,1,2} (K<=3), every {0,1} mask of the small shapes x 3 metrics x 2 algorithms x '
      'greedy/oracle/DHTV with every (start,width,shift<=width) plan is run through the real aligners; bijectivity, '
      'exact re-ordering, multiset preservation and equality with a loop-level reference state machine are checked '
      'on every case; inline alignment inside EM is observed through the iteration hook; the built-in '
      'spatial/spectral alignment is checked on all 3-value log-pdf tables. Exhaustive within the stated alphabet.',
      'Trusted: the reference assignment rules in mc/refmodels/alignment.py; masks outside the {0,1} alphabet are '
      'covered by a generic-position family only.',
      'DESIGN.md §3 C14')
for k in CHECKS:
    NOT_YET.pop(k, None)
