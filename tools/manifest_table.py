HOOK_COMMITS = ['e5a4503']
NOTES = ('All checks are bounded exhaustive explorations ("model checking" family) run on the real code of '
         '/repo\'s working tree; see DESIGN.md. KNOWN_FINDINGS.txt lists recorded/fixed defects.')

for k in ['C%02d' % i for i in range(1, 21)]:
    NOT_YET[k] = 'check under construction in this build round (design in DESIGN.md §3); not claimed until its driver is committed'

check('C14', 'model_checking',
      'exhaustive enumeration of score matrices / binary masks / DHTV plans with a reference state machine',
      'Every score matrix over {0,1,2} (K<=3), every {0,1} mask of the small shapes x 3 metrics x 2 algorithms x '
      'greedy/oracle/DHTV with every (start,width,shift<=width) plan is run through the real aligners; bijectivity, '
      'exact re-ordering, multiset preservation and equality with a loop-level reference state machine are checked '
      'on every case; inline alignment inside EM is observed through the iteration hook; the built-in '
      'spatial/spectral alignment is checked on all 3-value log-pdf tables. Exhaustive within the stated alphabet.',
      'Trusted: the reference assignment rules in mc/refmodels/alignment.py; masks outside the {0,1} alphabet are '
      'covered by a generic-position family only.',
      'DESIGN.md §3 C14')
for k in CHECKS:
    NOT_YET.pop(k, None)

check('C07', 'exploration',
      'complete enumeration of a parameter/point grid against closed forms; product quadrature',
      'Full product of family x D (1..8 / 2..6) x covariance condition (1..1e8) / concentration (1e-6..500) / '
      'Bingham spectra x evaluation points x parameter stacks; every value compared with an independent closed form '
      '(loops, slogdet/solve, mpmath besseli/hyp1f1, 60-digit Bingham normaliser); integrates-to-one by product '
      'quadrature on the complex unit sphere (D=2), S^1, S^2, R^1, R^2.',
      'Grid, not all reals; Bingham spectra whose float64 normaliser has a cancellation factor > 1e6 are checked for '
      'finiteness only; quadrature for D<=3 only.',
      'DESIGN.md §3 C07')
check('C01', 'exploration',
      'deviation-bounded exhaustive exploration of the configuration space + exhaustive small data alphabet',
      'Every configuration of the seven mixture models that departs from the defaults in <= 2 (quick) / 3 (thorough) '
      'options, the full product model x tying x data kind x start, and all data sets over the Gaussian-integer '
      'alphabet (D=2, N<=3) are fitted with the real trainers; every E-step result (iteration hook), predict and '
      'fit_predict output is checked for shape/finite/[0,1]/sum-to-one/mask zeros and compared with an independent '
      'Bayes rule built from the public component log_pdf and the stored weights; initializers for all K<=6, N<=12.',
      'An exception is accepted where the property allows it (degenerate data kinds, too few frames, K=1, a class '
      'without mass); on regular data an exception is reported. Single precision: dynamic range 1e-12..1e12.',
      'DESIGN.md §3 C01')
for k in CHECKS:
    NOT_YET.pop(k, None)

check('C08', 'model_checking',
      'exhaustive small saliency patterns against reference estimators; reference EM run in lock-step with the implementation (every traced iteration state)',
      'Single-distribution trainers and the mixture-weight update are compared with loop-level reference estimators on '
      'every assignment of {0,0.5,1,2} to N<=4 frames (plus graded / none), all documented options and leading axes; '
      'the repetition law is checked for every integer saliency vector in {1..3}^N; for the seven mixture trainers a '
      'reference EM (reference densities + reference estimators + reference aligner) is run next to the '
      'implementation: every traced (affiliation, quadratic form, model) state is compared per step from the '
      "implementation's own previous state, the hook is validated against fit(iterations=i), and the n-fold "
      'reference composition is compared end to end.',
      'Watson concentration judged by the residual of the eigenvalue equation (1e-6), Bingham eigenvalues by the '
      'gradient equation (1e-5); a Gaussian fit may raise when the weighted scatter is singular; generic-position data.',
      'DESIGN.md §3 C08')
for k in CHECKS:
    NOT_YET.pop(k, None)

check('C02', 'model_checking',
      'explicit-state exploration of EM trajectories with the implementation as transition function; invariant on every edge',
      'State = model after iteration i of one (family/options, tying, saliency, eps, K, D, F, data set, start); '
      'transitions = EM iterations executed by the real trainers (iteration hook, cross-checked with fit(iterations=i)) '
      'and, for cACGMM, jump edges fit(initialization=model_i, iterations=j) that must land on state i+j. The independent '
      'mixture log-likelihood (reference densities, stored weights, saliency-weighted) must be non-decreasing on every '
      'unguarded edge; CACGMM.log_likelihood must equal it in every state. 12 (quick) / 50 (thorough) iterations.',
      'Generic-position data sets built from the seed (clustered / unclustered / tight), N = 4KD; quick tier is a '
      'covering subset of the full product (stated in the evidence), thorough is the full product.',
      'DESIGN.md §3 C02')
check('C09', 'exploration',
      'deviation-bounded exhaustive exploration of degenerate data x options; predicates on every traced model',
      'All configurations with <= 2 (quick) / 3 (thorough) non-default options on every degenerate data kind '
      '(zero / duplicated / collinear / too few frames, 1e+-150 scales) x soft and hard starts, plus the full product '
      'model x data kind x start x iterations x covariance norm, plus regular data; every intermediate model seen by '
      'the iteration hook is checked against the documented domain (weights, cACG eigen-structure, modes, '
      'concentrations, covariances, Bingham eigenvalues); the single-distribution trainers on the same data.',
      'Predicates only; an explicit exception is accepted on degenerate data and counted.',
      'DESIGN.md §3 C09')
for k in CHECKS:
    NOT_YET.pop(k, None)
