#!/bin/bash
# confirm_seed.sh <agent worktree> <letter a|b> <PROP> [round tag, e.g. r3] : re-verifies a seeded change on a fresh
# worktree of /repo's HEAD (patch applies, baseline tests still pass, demo fails with / passes without)
# and stores it under /verif/seeded/<PROP><letter>/
src="$1"; L="$2"; P="$3"; R="${4:-}"; id="${P}${R}${L}"
wt="/tmp/wt/confirm_$id"; rm -rf "$wt"; git -C /repo worktree prune
git -C /repo worktree add -q --detach "$wt" HEAD || exit 2
cp "$src/demo_$L.py" "$wt/demo.py"
cd "$wt"
PYTHONPATH="$wt" /venv/bin/python demo.py >/dev/null 2>&1; rc_clean=$?
if ! git apply "$src/patch_$L.diff"; then echo "$id: PATCH DOES NOT APPLY"; git -C /repo worktree remove --force "$wt"; exit 3; fi
PYTHONPATH="$wt" /venv/bin/python demo.py >/dev/null 2>&1; rc_patched=$?
tests="$(/tmp/wt_tools/run_tests.sh "$wt" 2>&1 | grep -E '^passed=')"
echo "$id: demo clean rc=$rc_clean patched rc=$rc_patched tests: $tests"
okflag=false
if [ "$rc_clean" = 0 ] && [ "$rc_patched" != 0 ] && echo "$tests" | grep -q 'missing=0'; then okflag=true; fi
if $okflag; then
  d="/verif/seeded/$id"; mkdir -p "$d"
  cp "$src/patch_$L.diff" "$d/patch.diff"; cp "$src/demo_$L.py" "$d/demo.py"
  cp "$src/SEED_NOTES.md" "$d/agent_notes.md" 2>/dev/null
  /venv/bin/python - "$d" "$P" "$id" "$rc_clean" "$rc_patched" "$tests" "$(git -C /repo rev-parse --short HEAD)" <<'PY'
import json, sys
d, P, id_, rc_c, rc_p, tests, head = sys.argv[1:]
json.dump(dict(id=id_, property=P, source='fresh sub-agent given only the property text and a scratch worktree',
               confirmed_on_repo_head=head,
               ran=['git apply patch.diff (fresh worktree of HEAD)', 'pinned test suite via run_tests.sh: ' + tests,
                    f'demo.py on clean tree: exit {rc_c}', f'demo.py with patch: exit {rc_p}'],
               needs='see agent_notes.md', detected_by=None), open(d + '/meta.json', 'w'), indent=1)
PY
fi
git -C /repo worktree remove --force "$wt"
$okflag
