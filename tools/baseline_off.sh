#!/bin/bash
# Runs the repository's pinned test suite with the verification guard OFF and
# compares the passing set with /root/.vp/BASELINE.json (stable_pass).
unset PB_BSS_VERIF
out="$(mktemp -d /var/tmp/pbbss_baseline.XXXXXX)"
cd /repo && /venv/bin/python -m pytest -ra -q -p no:cacheprovider --timeout=900 \
    --continue-on-collection-errors --junitxml="$out/junit.xml" >"$out/log.txt" 2>&1
/venv/bin/python - "$out/junit.xml" <<'PY'
import json, sys, xml.etree.ElementTree as ET
root = ET.parse(sys.argv[1]).getroot()
passed = set()
for tc in root.iter('testcase'):
    bad = [c.tag for c in tc if c.tag in ('failure', 'error', 'skipped')]
    if not bad:
        passed.add(f"{tc.get('classname')}::{tc.get('name')}")
try:
    stable = set(json.load(open('/root/.vp/BASELINE.json'))['stable_pass'])
except Exception as e:
    print('no BASELINE.json:', e); stable = set()
missing = sorted(stable - passed)
print(f'passed={len(passed)} stable_pass={len(stable)} missing_from_stable={len(missing)}')
for m in missing[:40]:
    print('  MISSING', m)
sys.exit(1 if missing else 0)
PY
rc=$?
tail -3 "$out/log.txt"
rm -rf "$out"
exit $rc
