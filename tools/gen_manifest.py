#!/venv/bin/python
"""Writes /verif/MANIFEST.json from the table below (kept valid at all times)."""
import json, os, sys
HERE = os.path.dirname(os.path.dirname(os.path.abspath(__file__)))
sys.path.append(os.path.join(HERE, '_vendor'))

CHECKS = {}
NOT_YET = {}

def check(pid, level, technique, text, note, design):
    CHECKS[pid] = dict(
        property_id=pid,
        quick_cmd=f'./check {pid} --tier quick',
        thorough_cmd=f'./check {pid} --tier thorough',
        evidence_file=f'/verif/evidence/{pid}.json',
        replay_cmd_template=f'./check {pid} --replay {{path}}',
        engine='mc',
        level_claimed=dict(category=level, text=text, design_ref=design),
        level_note=note,
        technique=technique,
    )

exec(open(os.path.join(HERE, 'tools', 'manifest_table.py')).read())

ALL = [f'C{i:02d}' for i in range(1, 21)]
manifest = dict(
    version=1,
    setup_cmd='cd /verif && /venv/bin/pip install -q --no-index --find-links /opt/veriftools/wheels '
              '--target /verif/_vendor mpmath networkx jsonschema && /venv/bin/python -m compileall -q mc >/dev/null; true',
    hooks=dict(
        guard='PB_BSS_VERIF',
        enable='PB_BSS_VERIF=1 in the environment (set by ./check); pb_bss/_verif.trace() is a no-op '
               'unless the variable is 1 and a callback is registered',
        baseline_off_cmd='/verif/tools/baseline_off.sh',
        source_commits=HOOK_COMMITS,
        add_only=True,
    ),
    engines=[dict(name='mc', path='/verif/mc', serves_properties=sorted(CHECKS),
                  kind_free_text='hand-written bounded exhaustive explorer for Python: complete enumeration '
                  'of finite case spaces / explicit-state search with the implementation as transition '
                  'function, reference models in mc/refmodels, TLC models in mc/tla replayed against the code')],
    checks=[CHECKS[k] for k in ALL if k in CHECKS],
    notes=NOTES,
    not_applicable=[dict(property_id=k, reason=NOT_YET[k]) for k in ALL if k not in CHECKS],
)
missing = [k for k in ALL if k not in CHECKS and k not in NOT_YET]
assert not missing, missing
import jsonschema
jsonschema.validate(manifest, json.load(open(os.path.join(HERE, 'schemas', 'MANIFEST.schema.json'))))
json.dump(manifest, open(os.path.join(HERE, 'MANIFEST.json'), 'w'), indent=1)
print('MANIFEST.json written:', len(manifest['checks']), 'checks,', len(manifest['not_applicable']), 'not claimed')
