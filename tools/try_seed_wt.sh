#!/bin/bash
# try_seed_wt.sh <seed id> <PROP> [<PROP>...] : like try_seed.sh, but applies the patch in a scratch worktree
# of /repo's HEAD under /tmp/wt (removed afterwards) and points the checks at it through VERIF_REPO, so
# /repo is not touched and long-running checks against /repo are not disturbed.  No evidence is written.
id="$1"; shift
wt="/tmp/wt/try_$id"
mkdir -p /tmp/wt; git -C /repo worktree remove --force "$wt" >/dev/null 2>&1; git -C /repo worktree prune
git -C /repo worktree add -q --detach "$wt" HEAD || exit 2
git -C "$wt" apply "/verif/seeded/$id/patch.diff" || { echo "$id: patch does not apply"; git -C /repo worktree remove --force "$wt"; exit 3; }
cd /verif
for P in "$@"; do
  out="$(VERIF_REPO="$wt" ./check "$P" --tier "${TIER:-quick}" --no-evidence 2>&1)"; rc=$?
  n=$(echo "$out" | grep -c '^VIOLATION')
  if [ $rc = 1 ]; then echo "$id vs $P: DETECTED ($n violation lines) $(echo "$out" | grep -m1 '^   \[' | cut -c1-160)";
  elif [ $rc = 0 ]; then echo "$id vs $P: MISSED (rc=0)";
  else echo "$id vs $P: MISSED (rc=$rc, the check itself failed) $(echo "$out" | grep -m1 HARNESS | cut -c1-200)"; fi
done
git -C /repo worktree remove --force "$wt"
