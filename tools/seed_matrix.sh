#!/bin/bash
# seed_matrix.sh [id ...] : runs every stored seed (or the given ones) against the quick check of its own property
# (and the extra checks named in seeded/<id>/also.txt) in a scratch worktree (tools/try_seed_wt.sh), records the
# outcome in seeded/<id>/meta.json (detected_by / missed_by / first_report) and prints a table.
# PAR=<n> seeds are tried concurrently (default 3).
cd /verif
one() {
  id="$1"; d="seeded/$id"
  P=$(/venv/bin/python -c "import json;print(json.load(open('$d/meta.json'))['property'])")
  also=""; [ -f "$d/also.txt" ] && also=$(cat "$d/also.txt")
  res=$(${SEED_TRY:-tools/try_seed_wt.sh} "$id" $P $also 2>&1)
  det=$(echo "$res" | grep DETECTED | sed -E "s/.* vs (C[0-9]+): DETECTED.*/\1/" | tr '\n' ' ')
  mis=$(echo "$res" | grep -E "MISSED|does not apply" | sed -E "s/.* vs (C[0-9]+): MISSED.*/\1/" | tr '\n' ' ')
  first=$(echo "$res" | grep -m1 DETECTED | sed -E 's/.*violation lines\) *//' | cut -c1-140)
  /venv/bin/python - "$d/meta.json" "$det" "$mis" "$first" <<'PY'
import json, sys
p, det, mis, first = sys.argv[1:]
m = json.load(open(p)); m['detected_by'] = det.split(); m['missed_by'] = mis.split(); m['first_report'] = first
json.dump(m, open(p, 'w'), indent=1)
PY
  echo "$id | $P | detected: ${det:-none} | missed: ${mis:-none}"
}
export -f one
if [ $# -gt 0 ]; then ids="$*"; else ids=$(ls seeded); fi
echo $ids | tr ' ' '\n' | xargs -P "${PAR:-3}" -I{} bash -c 'one {}'
