#!/venv/bin/python
"""Regenerates the seeded-change table of DESIGN.md (between the SEED-TABLE markers) from seeded/*/meta.json."""
import glob, json, os, re
D = '/verif/DESIGN.md'
s = open(D).read()
rows = []
for p in sorted(glob.glob('/verif/seeded/*/meta.json'), key=lambda p: (json.load(open(p))['property'], os.path.basename(os.path.dirname(p)))):
    m = json.load(open(p))
    det = ' '.join(m.get('detected_by') or []) or 'none'
    mis = ' '.join(m.get('missed_by') or [])
    caught = det + (f' (not: {mis})' if mis else '')
    first = (m.get('first_report') or '').replace('|', '/')[:120]
    rows.append(f"| {m['id']} | {m['property']} | {m.get('summary', '').replace('|', '/')} | {caught} | {first} |")
table = ('<!-- SEED-TABLE-BEGIN -->\n| seed | property | change | caught by | first report |\n|---|---|---|---|---|\n'
         + '\n'.join(rows) + '\n<!-- SEED-TABLE-END -->')
if '<!-- SEED-TABLE-BEGIN -->' in s:
    s = re.sub(r'<!-- SEED-TABLE-BEGIN -->.*?<!-- SEED-TABLE-END -->', lambda _: table, s, flags=re.S)
else:
    # first use: replace the hand-written table
    i = s.index('| seed | property | change | caught by |')
    j = i
    lines = s[i:].split('\n')
    n = 0
    for ln in lines:
        if not ln.startswith('|'):
            break
        n += len(ln) + 1
    s = s[:i] + table + '\n' + s[i + n:]
open(D, 'w').write(s)
print(len(rows), 'rows')
