#!/venv/bin/python
"""Group violation artefacts: triage.py C01 [field ...]"""
import collections, glob, json, re, sys
pid = sys.argv[1]; fields = sys.argv[2:]
groups = collections.defaultdict(list)
for f in glob.glob(f'/verif/violations/{pid}/*.json'):
    a = json.load(open(f))
    msg = re.sub(r'-?\d+\.\d+(e[+-]?\d+)?', 'N', a['msg'] or '')[:150]
    groups[(a['sub'], msg)].append(a)
for (sub, msg), arts in sorted(groups.items(), key=lambda kv: -len(kv[1])):
    print(f'{len(arts):5d} [{sub}] {msg}')
    for fld in fields:
        c = collections.Counter(json.dumps(a['key'].get(fld)) for a in arts)
        print('        ', fld, dict(c.most_common(8)))
