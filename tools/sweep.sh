#!/bin/bash
# sweep.sh <tier> <seed> [<seed>...] : runs every check without writing evidence; prints one line per check
# plus the first violation / harness lines.
tier="$1"; shift
cd /verif
for sd in "$@"; do
  for i in $(seq -w 1 20); do
    out="$(VERIF_SEED=$sd ./check C$i --tier "$tier" --no-evidence 2>&1)"; rc=$?
    echo "seed=$sd C$i rc=$rc $(echo "$out" | grep -E "^C$i tier" | sed -E 's/.*(cases=[0-9]+).*(violations=[0-9]+ known=[0-9]+ wall=[0-9.]+s).*/\1 \2/')"
    if [ $rc != 0 ]; then echo "$out" | grep -E "^   \[|HARNESS" | cut -c1-260 | sort | uniq -c | sort -rn | head -5; fi
  done
done
