#!/bin/bash
# try_seed.sh <seed id> <PROP> [<PROP>...] : applies /verif/seeded/<id>/patch.diff to /repo, runs the quick
# checks (no evidence written), reverts /repo.  Prints DETECTED/MISSED per check.
id="$1"; shift
cd /repo || exit 2
if [ -n "$(git status --porcelain --untracked-files=no)" ]; then echo "/repo not clean"; exit 2; fi
git apply "/verif/seeded/$id/patch.diff" || { echo "$id: patch does not apply"; exit 3; }
cd /verif
for P in "$@"; do
  out="$(./check "$P" --tier "${TIER:-quick}" --no-evidence 2>&1)"; rc=$?
  n=$(echo "$out" | grep -c '^VIOLATION')
  if [ $rc = 1 ]; then echo "$id vs $P: DETECTED ($n violation lines) $(echo "$out" | grep -m1 '^   \[' | cut -c1-160)";
  else echo "$id vs $P: MISSED (rc=$rc) $(echo "$out" | grep -m1 HARNESS | cut -c1-200)"; fi
done
git -C /repo checkout -- . 
