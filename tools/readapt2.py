#!/venv/bin/python
"""Re-creates the seeded patches whose context was changed by the fix commits 31f8376 / 6daa2dd
(log_pdf_to_affiliation) and f948c3e (ComplexBingham._remove_duplicate_eigenvalues) by applying the same
semantic edit to the current HEAD in a scratch worktree.  The originals are kept as patch.orig.diff."""
import os
import shutil
import subprocess

wt = '/tmp/wt/readapt2'
subprocess.run(['git', '-C', '/repo', 'worktree', 'remove', '--force', wt], capture_output=True)
subprocess.run(['git', '-C', '/repo', 'worktree', 'add', '-q', '--detach', wt, 'HEAD'], check=True)


def emit(seed, path, old, new, count=1):
    p = os.path.join(wt, path)
    orig = open(p).read()
    assert orig.count(old) == count, (seed, orig.count(old))
    open(p, 'w').write(orig.replace(old, new))
    d = subprocess.run(['git', '-C', wt, 'diff', '--', 'pb_bss'], capture_output=True, text=True).stdout
    assert d
    dst = f'/verif/seeded/{seed}/patch.diff'
    keep = f'/verif/seeded/{seed}/patch.orig.diff'
    if not os.path.exists(keep):
        shutil.copy(dst, keep)
    open(dst, 'w').write(d)
    open(p, 'w').write(orig)


MU = 'pb_bss/distribution/mixture_model_utils.py'

# C01b: masking only in the log domain, the product with the mask afterwards removed and no guard for a
# column without contributing source (-inf - -inf)
p = os.path.join(wt, MU)
orig = open(p).read()
new = orig.replace("    affiliation = affiliation - np.where(np.isfinite(maximum), maximum, 0)\n",
                   "    affiliation = affiliation - maximum\n")
new = new.replace("""    if source_activity_mask is not None:
        assert source_activity_mask.dtype == bool, source_activity_mask.dtype  # noqa
        affiliation *= source_activity_mask

""", "")
assert new != orig and new.count('affiliation *= source_activity_mask') == 0
open(p, 'w').write(new)
d = subprocess.run(['git', '-C', wt, 'diff', '--', 'pb_bss'], capture_output=True, text=True).stdout
if not os.path.exists('/verif/seeded/C01b/patch.orig.diff'):
    shutil.copy('/verif/seeded/C01b/patch.diff', '/verif/seeded/C01b/patch.orig.diff')
open('/verif/seeded/C01b/patch.diff', 'w').write(d)
open(p, 'w').write(orig)

# C01r2b: only positive exponents are shifted
emit('C01r2b', MU,
     "    maximum = np.amax(affiliation, axis=-2, keepdims=True)\n",
     "    # Only positive exponents can overflow, so nothing to do for the others.\n"
     "    maximum = np.maximum(np.amax(affiliation, axis=-2, keepdims=True), 0)\n")

# C05r2a: the first class is the reference instead of the maximum
emit('C05r2a', MU,
     "    maximum = np.amax(affiliation, axis=-2, keepdims=True)\n",
     "    # Any per-observation reference works. Taking one class as the reference\n"
     "    # (as in a multinomial logit) saves the reduction over the class axis.\n"
     "    maximum = affiliation[..., :1, :]\n")

# C06b: one common offset for the whole tensor
emit('C06b', MU,
     "    maximum = np.amax(affiliation, axis=-2, keepdims=True)\n",
     "    # A common offset is sufficient.\n"
     "    maximum = np.amax(affiliation)\n")

# C20r2a: fast paths that return the caller's array
CB = 'pb_bss/distribution/complex_bingham.py'
emit('C20r2a', CB,
     """        permutation = np.argsort(covariance_eigenvalues, axis=-1, )
        covariance_eigenvalues = np.take_along_axis(covariance_eigenvalues, permutation, axis=-1)
        diff = np.diff(covariance_eigenvalues, axis=-1)
""",
     """        permutation = np.argsort(covariance_eigenvalues, axis=-1, )
        if np.any(permutation != np.arange(permutation.shape[-1])):
            # `eigh` and the trainer deliver ascending eigenvalues, so the
            # gather is only necessary for hand made (unsorted) values.
            covariance_eigenvalues = np.take_along_axis(covariance_eigenvalues, permutation, axis=-1)
        diff = np.diff(covariance_eigenvalues, axis=-1)
        if np.all(diff >= eps):
            # Fast path: all eigenvalues are already separated and the
            # reconstruction below would only add rounding errors.
            inverse_permutation = np.arange(permutation.shape[-1])[np.argsort(permutation, axis=-1)]
            return inverse_permutation, covariance_eigenvalues
""")

subprocess.run(['git', '-C', '/repo', 'worktree', 'remove', '--force', wt], check=True)
print('re-adapted C01b C01r2b C05r2a C06b C20r2a')
