#!/venv/bin/python
"""Eighth-round seeding prompt: seed_prompt.py plus the list of changes that already exist and a different
list of suggested mechanisms.  usage: seed_prompt8.py C14 <worktree>"""
import json, subprocess, sys
pid, wt = sys.argv[1], sys.argv[2]
base = subprocess.run(['/verif/tools/seed_prompt.py', pid, wt], capture_output=True, text=True).stdout
prior = json.load(open('/tmp/wt_tools/prior.json')).get(pid, [])
extra = ("\n\nOther people already produced the following changes for this property; yours must be DIFFERENT from "
         "them (other functions, other mechanisms, other triggers):\n" + "\n".join(f" - {p}" for p in prior) +
         "\nThe list above is long; yours must be really different from all of them. This time the slip should sit in a "
         "DATA-DEPENDENT BRANCH or in a SHARED HELPER: (1) a branch that is only taken when a computed quantity "
         "crosses a moderate threshold (a concentration above ~50, an eigenvalue ratio above ~1e4, an SNR above "
         "~40 dB, a class whose share falls below a few percent, more than a few thousand observations per class, "
         "an iteration count above the default) - ordinary, realistic inputs, not extreme magnitudes; or (2) a "
         "change in a helper used by several callers (pb_bss/utils.py, pb_bss/math/*, pb_bss/distribution/utils.py, "
         "pb_bss/distribution/mixture_model_utils.py, private helpers of the module) that is right for the caller "
         "the author looked at and wrong for another caller that reaches this property; or (3) a change that is only "
         "wrong from the second call, iteration or frequency bin on, or only for the last element of a loop. The "
         "changed code has to look right to a careful reviewer and be right for the inputs the doctests and tests "
         "use. Do not use: very large / tiny magnitudes, dtype, memory layout, read-only flags, exact zeros - these "
         "are all taken. "
         "Put the body of each demo under `if __name__ == '__main__':` (the test suite imports every .py file). "
         "Never use `git stash`; revert with `git checkout -- pb_bss`.")
print(base + extra)
