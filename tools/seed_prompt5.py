#!/venv/bin/python
"""Fifth-round seeding prompt: seed_prompt.py plus the list of changes that already exist and a different
list of suggested mechanisms.  usage: seed_prompt5.py C14 <worktree>"""
import json, subprocess, sys
pid, wt = sys.argv[1], sys.argv[2]
base = subprocess.run(['/verif/tools/seed_prompt.py', pid, wt], capture_output=True, text=True).stdout
prior = json.load(open('/tmp/wt_tools/prior.json')).get(pid, [])
extra = ("\n\nOther people already produced the following changes for this property; yours must be DIFFERENT from "
         "them (other functions, other mechanisms, other triggers):\n" + "\n".join(f" - {p}" for p in prior) +
         "\nThink about what a checker that was built from the property text alone would most likely NOT exercise, and "
         "hide the defect there: a rarely used keyword argument or a non-default value of it; an alternative public "
         "entry point that reaches the same code (classmethod constructors, wrappers, __call__ versus the named "
         "method, fit_predict versus fit + predict, functions re-exported from another module); arguments passed as "
         "Python lists / tuples / scalars / 0-d arrays / integer or boolean arrays instead of float ndarrays; negative "
         "versus positive axis indices; K = 1 or a single frequency / frame / channel; much larger N, F or K than "
         "usual; a result that aliases one of the arguments (a view instead of a copy, so that a later change of one "
         "changes the other); an input that is modified and restored 'almost' exactly; a swallowed exception or a "
         "silent fallback path; behaviour that differs between the first and the last element of an axis (boundary "
         "bins, first / last class, first / last frame); NaN / inf guards that replace values silently; an "
         "accumulation in a narrower dtype; dependence on dict / set iteration order or on object identity. "
         "Put the body of each demo under `if __name__ == '__main__':` (the test suite imports every .py file). "
         "Never use `git stash`; revert with `git checkout -- pb_bss`.")
print(base + extra)
