#!/venv/bin/python
"""Prints the prompt for a fresh sub-agent asked to seed a property-breaking change.
usage: seed_prompt.py C14 <worktree>"""
import json, sys
pid, wt = sys.argv[1], sys.argv[2]
p = [json.loads(l) for l in open('/verif/properties.jsonl') if json.loads(l)['id'] == pid][0]
print(f"""You are helping to evaluate a verification harness by seeding a realistic defect. Work ONLY inside the scratch git worktree {wt} (a checkout of the Python library fgnt/pb_bss: EM mixture models and beamformers for blind source separation). Never read or write /repo or /verif.

The library is supposed to satisfy this semantic property:

TITLE: {p['title']}
STATEMENT: {p['statement']}
QUANTIFIED OVER: {p['quantifier']['text']}
RELEVANT FILES: {', '.join(p['anchors']['files'])}

Your task: produce TWO different, independent changes to the library source (under {wt}/pb_bss/, in different functions or mechanisms if possible) such that each one
 (1) breaks the property above,
 (2) still imports and leaves the existing test suite's passing set unchanged. Run `/tmp/wt_tools/run_tests.sh {wt}` (takes ~40 s); it must print `missing=0` (about 45 tests already fail at baseline, that is expected; only the baseline-passing set counts),
 (3) is realistic - the kind of slip a maintainer makes when refactoring, optimising, "simplifying" or fixing something else - and is subtle: it must need something specific to manifest (a particular option or configuration, a multi-step sequence of calls, an unusual but valid input such as a degenerate/tied/extreme value or an unusual axis layout, a larger size, or two cooperating sites that each look fine alone). Do NOT produce a change that any ordinary default call would expose at once, and do not just delete a whole feature.
For each change write a demonstration program ({wt}/demo_a.py, {wt}/demo_b.py) that exits non-zero (failed assertion, with a clear message) when the change is applied and exits 0 on the unmodified tree. Run python as: cd {wt} && PYTHONPATH={wt} /venv/bin/python demo_a.py  (NumPy 2.x, SciPy, scikit-learn are installed; nothing can be downloaded).

Deliverables, all inside {wt}:
  - patch_a.diff and patch_b.diff : each the output of `git diff -- pb_bss` for ONE change alone relative to the unmodified tree (make change A, save the diff, `git checkout -- pb_bss`, make change B, save the diff, `git checkout -- pb_bss`). Each must apply with `git apply` to the clean tree.
  - demo_a.py, demo_b.py
  - SEED_NOTES.md : for each change: what was changed, why the property is violated, exactly what is needed for it to manifest, and the commands you ran with their results (test-suite result with the patch applied: missing=0; demo exit code with and without the patch).
Leave the worktree's pb_bss/ sources clean (unmodified) at the end. Verify everything yourself before finishing: apply each patch alone, run the test script, run the demo (must fail), revert, run the demo (must pass). Keep your final answer short: a 5-line summary of the two changes.""")
