#!/venv/bin/python
"""Fourth-round seeding prompt: seed_prompt.py plus the list of changes that already exist and a different
list of suggested mechanisms.  usage: seed_prompt4.py C14 <worktree>"""
import json, subprocess, sys
pid, wt = sys.argv[1], sys.argv[2]
base = subprocess.run(['/verif/tools/seed_prompt.py', pid, wt], capture_output=True, text=True).stdout
prior = json.load(open('/tmp/wt_tools/prior.json')).get(pid, [])
extra = ("\n\nOther people already produced the following changes for this property; yours must be DIFFERENT from "
         "them (other functions, other mechanisms, other triggers):\n" + "\n".join(f" - {p}" for p in prior) +
         "\nPrefer mechanisms that were not used above, such as: state carried from one call to the next (caches, "
         "memoisation, attributes set on first use, default-argument objects), an interplay of TWO options that are "
         "each fine alone, a code path that is only taken for one particular size or count (a single class, a single "
         "frame or frequency bin, an odd / even count, K larger than 2 or 3, a singleton axis that gets broadcast), "
         "single precision or integer / boolean input, a quantity that is right at the first iteration and wrong from "
         "the second on, a value that is exactly zero / exactly tied / exactly at a threshold, a numerically "
         "'equivalent' rewrite that loses accuracy only for ill-conditioned, very small or very large inputs, a "
         "reduction over the wrong one of two equally long axes, an early return or shortcut for an input that "
         "'looks' trivial, results that depend on the order of the classes / sources / channels. "
         "Put the body of each demo under `if __name__ == '__main__':` (the test suite imports every .py file). "
         "Never use `git stash`; revert with `git checkout -- pb_bss`.")
print(base + extra)
