#!/venv/bin/python
"""Regenerates the per-property summary table of DESIGN.md §8.2 (between the SUMMARY-TABLE markers) from the
evidence files written by the last quick-tier runs."""
import glob, json, re
rows = []
for p in sorted(glob.glob('/verif/evidence/C*.json')):
    e = json.load(open(p))
    c = e['coverage']
    subs = ', '.join(f"{s['name']} ({s['cases']})" for s in c.get('sub_checks', []))
    st = sum(s.get('states', 0) for s in c.get('sub_checks', []))
    tr = sum(s.get('transitions', 0) for s in c.get('sub_checks', []))
    extra = f"; {st} states / {tr} transitions" if st else ''
    wall = e.get('wall_s', '')
    rows.append(f"| {e['property_id']} | {e['level']} | {subs} | {c['cases']} cases, {c['evaluations']} evaluations{extra} | {wall} |")
table = ('<!-- SUMMARY-TABLE-BEGIN -->\n| ID | level | sub-checks (cases) | totals | wall s |\n|---|---|---|---|---|\n'
         + '\n'.join(rows) + '\n<!-- SUMMARY-TABLE-END -->')
D = '/verif/DESIGN.md'
s = open(D).read()
if '<!-- SUMMARY-TABLE-BEGIN -->' in s:
    s = re.sub(r'<!-- SUMMARY-TABLE-BEGIN -->.*?<!-- SUMMARY-TABLE-END -->', lambda _: table, s, flags=re.S)
else:
    i = s.index('| ID | sub-checks | cases | wall |')
    n = 0
    for ln in s[i:].split('\n'):
        if not ln.startswith('|'):
            break
        n += len(ln) + 1
    s = s[:i] + table + '\n' + s[i + n:]
open(D, 'w').write(s)
print(len(rows), 'rows')
