#!/venv/bin/python
"""Sixth-round seeding prompt: seed_prompt.py plus the list of changes that already exist and a different
list of suggested mechanisms.  usage: seed_prompt6.py C14 <worktree>"""
import json, subprocess, sys
pid, wt = sys.argv[1], sys.argv[2]
base = subprocess.run(['/verif/tools/seed_prompt.py', pid, wt], capture_output=True, text=True).stdout
prior = json.load(open('/tmp/wt_tools/prior.json')).get(pid, [])
extra = ("\n\nOther people already produced the following changes for this property; yours must be DIFFERENT from "
         "them (other functions, other mechanisms, other triggers):\n" + "\n".join(f" - {p}" for p in prior) +
         "\nThe list above is long: find something that is really different. Good places to look: a clause that the "
         "property text mentions only in passing (the end of the statement, an 'including ...' remark in the "
         "quantifier); helper functions shared with other modules (pb_bss/utils.py, pb_bss/math, "
         "pb_bss/distribution/utils.py) that this property's functions rely on; a changed DEFAULT value of an "
         "argument; error handling (an exception that should be raised is swallowed or replaced by a default value, "
         "or a valid input is now rejected only in a rare configuration); arguments given in an equivalent but "
         "unusual form (negative axis numbers, a tuple instead of an int, a numpy scalar instead of a float, a "
         "keyword instead of a positional argument); sizes at the edge of the stated ranges (the smallest and the "
         "largest K, D, F, T the quantifier allows, odd versus even counts); values at the edge of the stated "
         "ranges (the largest condition number, the smallest and largest concentration or scale the quantifier "
         "allows); two calls that must agree with each other (the same quantity reachable through two public "
         "routes); results that are right for the first and last element of an axis but wrong in between or vice "
         "versa. "
         "Put the body of each demo under `if __name__ == '__main__':` (the test suite imports every .py file). "
         "Never use `git stash`; revert with `git checkout -- pb_bss`.")
print(base + extra)
