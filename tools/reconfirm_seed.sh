#!/bin/bash
# reconfirm_seed.sh <id>: re-verifies /verif/seeded/<id> (patch.diff + demo.py) on a fresh worktree of HEAD
id="$1"; wt="/tmp/wt/reconfirm_$id"; rm -rf "$wt"; git -C /repo worktree prune
git -C /repo worktree add -q --detach "$wt" HEAD || exit 2
cp "/verif/seeded/$id/demo.py" "$wt/demo.py"; cd "$wt"
PYTHONPATH="$wt" /venv/bin/python demo.py >/dev/null 2>&1; rc_clean=$?
git apply "/verif/seeded/$id/patch.diff" || { echo "$id: PATCH DOES NOT APPLY"; git -C /repo worktree remove --force "$wt"; exit 3; }
PYTHONPATH="$wt" /venv/bin/python demo.py >/dev/null 2>&1; rc_patched=$?
tests="$(/tmp/wt_tools/run_tests.sh "$wt" 2>&1 | grep -E '^passed=')"
echo "$id: demo clean rc=$rc_clean patched rc=$rc_patched tests: $tests"
git -C /repo worktree remove --force "$wt"
[ "$rc_clean" = 0 ] && [ "$rc_patched" != 0 ] && echo "$tests" | grep -q 'missing=0'
